//! Operator families appended for the operator-level checks (vc-ops, C12-C14).
//! Same contract as the families in the parent module: every produced node is
//! valid by construction for the typed state, an op with no legal candidate
//! creates the constants it needs, and raw selectors are mapped monotonically.
//! Only `Profile::all_ops()` selects these families.

use super::*;

const MS: &str = "com.microsoft";

impl<'a> Builder<'a> {
    fn set_domain(&mut self, domain: &str) {
        if let Some(n) = self.nodes.last_mut() {
            n.domain = domain.to_string();
        }
    }

    fn const_lit(&mut self, prefix: &str, lit: TensorLit, mag: f64) -> usize {
        let name = self.fresh(prefix);
        let dtype = lit.dtype;
        let shape: Vec<usize> = lit.dims.iter().map(|d| *d as usize).collect();
        self.inits.push((name.clone(), lit));
        self.add_val(&name, dtype, shape, mag, VKind::Const, false)
    }

    fn const_small(&mut self, dtype: DType, shape: &[usize], gen: impl Fn(u32) -> i64) -> usize {
        let n: usize = shape.iter().product();
        let dims: Vec<i64> = shape.iter().map(|d| *d as i64).collect();
        let data: Vec<i64> = (0..n as u32).map(gen).collect();
        let mag = data.iter().fold(0.0f64, |m, v| m.max(v.unsigned_abs() as f64));
        self.const_lit("q", TensorLit { dtype, dims, f: vec![], i: data, raw: true }, mag)
    }

    /// An existing float value satisfying `pred`, else a fresh constant of `shape`.
    fn float_like(&mut self, sel: u16, pred: impl Fn(&V) -> bool, shape: &[usize], salt: u32) -> usize {
        if let Some(i) = self.pick_val(sel, |v| Self::is_f(v) && v.mag <= TOO_BIG && pred(v)) {
            return i;
        }
        let seed = self.seed ^ salt;
        self.const_f32(shape, |i| nice_f32(seed, i))
    }

    fn small_shape(&self, sel: u16, rank: usize, lo: usize, hi: usize) -> Vec<usize> {
        (0..rank).map(|d| lo + (hash32(sel as u32, 40 + d as u32) as usize) % (hi - lo + 1)).collect()
    }

    /// Emit a node whose outputs are not tracked as tensor values (sequences).
    fn raw_node(&mut self, op: &str, inputs: Vec<String>, attrs: Vec<(&str, Attr)>, n_out: usize) -> Vec<String> {
        let name = self.fresh("n");
        let outs: Vec<String> = (0..n_out).map(|_| self.fresh("s")).collect();
        self.nodes.push(NodeDef {
            op: op.to_string(),
            domain: String::new(),
            name,
            inputs,
            outputs: outs.clone(),
            attrs: attrs.into_iter().map(|(k, v)| (k.to_string(), v)).collect(),
        });
        outs
    }

    /// Leave a proper, non-empty subset of the last node's outputs unconnected
    /// (empty output name), as exporters do for unused optional outputs.
    fn maybe_drop_outputs(&mut self, sel: u16) {
        let Some(node) = self.nodes.last() else { return };
        let n = node.outputs.len();
        if n < 2 || sel % 3 != 0 {
            return;
        }
        let mask = 1 + (sel as usize / 3) % ((1usize << n) - 2);
        let mut dropped = Vec::new();
        let node = self.nodes.last_mut().unwrap();
        for i in 0..n {
            if (mask >> i) & 1 == 1 {
                dropped.push(std::mem::take(&mut node.outputs[i]));
            }
        }
        while node.outputs.last().map(|o| o.is_empty()).unwrap_or(false) && sel & 0x100 != 0 {
            node.outputs.pop();
        }
        self.vals.retain(|v| !dropped.contains(&v.name));
    }

    /// Register an already named node output as a tensor value.
    fn adopt(&mut self, name: &str, dtype: DType, shape: Vec<usize>, mag: f64) -> usize {
        self.add_val(name, dtype, shape, mag, VKind::Inter, false)
    }

    pub(super) fn apply_ext(&mut self, fam: Family, raw: &RawNode) -> bool {
        use Family::*;
        let [s0, s1, s2] = raw.ins;
        let a = raw.a;
        match fam {
            UnaryF2 => {
                let x = self.some_float(s0);
                let xv = self.vals[x].clone();
                let shape = xv.shape.clone();
                let m = xv.mag;
                let ops = ["Acos", "Asin", "Atan", "Acosh", "Asinh", "Atanh", "Cosh", "Sinh", "Tan", "Log", "ms:Gelu", "ms:FastGelu", "ms:QuickGelu", "ms:BiasGelu"];
                let op = ops[idx(a[0], ops.len())];
                let f = |s: &Vec<usize>, m: f64| (DType::F32, s.clone(), m);
                match op {
                    "Acos" | "Asin" | "Atanh" => {
                        let t = if m <= 0.9 { x } else { self.node("Tanh", &[x], vec![], vec![f(&shape, 1.0)])[0] };
                        let t = if op == "Atanh" {
                            let h = self.const_f32(&[], |_| 0.5);
                            self.node("Mul", &[t, h], vec![], vec![f(&shape, 0.5)])[0]
                        } else {
                            t
                        };
                        self.node(op, &[t], vec![], vec![f(&shape, 4.0)]);
                    }
                    "Acosh" | "Log" => {
                        let ab = self.node("Abs", &[x], vec![], vec![f(&shape, m)])[0];
                        let one = self.const_f32(&[], |_| 1.0);
                        let p = self.node("Add", &[ab, one], vec![], vec![f(&shape, m + 1.0)])[0];
                        self.node(op, &[p], vec![], vec![f(&shape, m + 2.0)]);
                    }
                    "Cosh" | "Sinh" => {
                        let t = if m > 6.0 { self.node("Tanh", &[x], vec![], vec![f(&shape, 1.0)])[0] } else { x };
                        let tm = self.vals[t].mag;
                        self.node(op, &[t], vec![], vec![f(&shape, tm.exp())]);
                    }
                    "Tan" => {
                        // unbounded near odd multiples of pi/2: keep the result out of later float ops
                        self.node(op, &[x], vec![], vec![f(&shape, TOO_BIG * 10.0)]);
                    }
                    "Atan" | "Asinh" => {
                        self.node(op, &[x], vec![], vec![f(&shape, m + 1.0)]);
                    }
                    "ms:Gelu" => {
                        self.node("Gelu", &[x], vec![], vec![f(&shape, m)]);
                        self.set_domain(MS);
                    }
                    "ms:QuickGelu" => {
                        let attrs = if a[1] & 1 == 0 { vec![] } else { vec![("alpha", Attr::Float(1.0))] };
                        self.node("QuickGelu", &[x], attrs, vec![f(&shape, m)]);
                        self.set_domain(MS);
                    }
                    "ms:FastGelu" | "ms:BiasGelu" => {
                        let r = shape.len();
                        if r == 0 {
                            return false;
                        }
                        let seed = self.seed ^ a[2] as u32;
                        let with_bias = op == "ms:BiasGelu" || a[1] & 1 == 0;
                        let mut ins = vec![x];
                        if with_bias {
                            ins.push(self.const_f32(&[shape[r - 1]], |i| nice_f32(seed, i) * 0.25));
                        }
                        self.node(&op[3..], &ins, vec![], vec![f(&shape, m + 1.0)]);
                        self.set_domain(MS);
                    }
                    _ => unreachable!(),
                }
                true
            }
            IsNanInf => {
                let x = self.some_float(s0);
                let xv = self.vals[x].clone();
                let src = if a[1] % 4 == 0 {
                    x
                } else {
                    // x / c with zeros in c: +-inf and NaN (0/0)
                    let seed = self.seed ^ a[2] as u32;
                    let cshape = if a[1] % 2 == 0 { vec![] } else { xv.shape.clone() };
                    let c = self.const_f32(&cshape, |i| if hash32(seed, i) % 3 == 0 { 0.0 } else { 1.0 });
                    self.node("Div", &[x, c], vec![], vec![(DType::F32, xv.shape.clone(), f64::INFINITY)])[0]
                };
                let op = if a[0] & 1 == 0 { "IsNaN" } else { "IsInf" };
                self.node(op, &[src], vec![], vec![(DType::Bool, xv.shape, 1.0)]);
                true
            }
            ModPow => {
                match a[0] % 4 {
                    0 => {
                        // integer Mod
                        let x = match self.pick_val(s0, |v| Self::is_i(v) && v.mag < 1e4) {
                            Some(x) => x,
                            None => self.const_typed(DType::I64, &[3], a[3] as u32),
                        };
                        let xv = self.vals[x].clone();
                        let seed = self.seed ^ a[1] as u32;
                        let cshape = if a[2] % 2 == 0 { vec![] } else { xv.shape.clone() };
                        let n: usize = cshape.iter().product();
                        let data: Vec<i64> = (0..n as u32)
                            .map(|i| {
                                let h = hash32(seed, i);
                                let v = 1 + (h % 3) as i64;
                                if h & 8 == 0 {
                                    v
                                } else {
                                    -v
                                }
                            })
                            .collect();
                        let dims: Vec<i64> = cshape.iter().map(|d| *d as i64).collect();
                        let lit = if xv.dtype == DType::I32 { TensorLit::i32(&dims, data) } else { TensorLit::i64(&dims, data) };
                        let c = self.const_lit("k", lit, 3.0);
                        let (l, r) = if a[2] % 4 >= 2 { (c, x) } else { (x, c) };
                        // when the generated value is the divisor it may contain zeros: keep it as dividend then
                        let (l, r) = if r == x { (x, c) } else { (l, r) };
                        self.node("Mod", &[l, r], vec![("fmod", Attr::Int(0))], vec![(xv.dtype, xv.shape, 3.0)]);
                    }
                    1 => {
                        let x = self.some_float(s0);
                        let xv = self.vals[x].clone();
                        let seed = self.seed ^ a[1] as u32;
                        let cshape = if a[2] % 2 == 0 { vec![] } else { xv.shape.clone() };
                        let c = self.const_f32(&cshape, |i| {
                            let h = hash32(seed, i);
                            let m = [0.5f32, 1.0, 1.5, 2.0][(h % 4) as usize];
                            if h & 16 == 0 {
                                m
                            } else {
                                -m
                            }
                        });
                        self.node("Mod", &[x, c], vec![("fmod", Attr::Int(1))], vec![(DType::F32, xv.shape, 2.0)]);
                    }
                    2 => {
                        // float Pow
                        let x = self.some_float(s0);
                        let xv = self.vals[x].clone();
                        if xv.mag > 20.0 {
                            return false;
                        }
                        let e = [2.0f32, 3.0, 1.0, 0.0, 0.5, -1.0][idx(a[1], 6)];
                        let base = if e == 0.5 || e < 0.0 {
                            let ab = self.node("Abs", &[x], vec![], vec![(DType::F32, xv.shape.clone(), xv.mag)])[0];
                            let one = self.const_f32(&[], |_| 1.0);
                            self.node("Add", &[ab, one], vec![], vec![(DType::F32, xv.shape.clone(), xv.mag + 1.0)])[0]
                        } else {
                            x
                        };
                        let ec = match a[2] % 3 {
                            0 => self.const_f32(&[], |_| e),
                            1 => self.const_f32(&[1], |_| e),
                            _ => self.const_f32(&xv.shape, |_| e),
                        };
                        let mag = (xv.mag + 1.0).powf(3.0);
                        self.node("Pow", &[base, ec], vec![], vec![(DType::F32, xv.shape, mag)]);
                    }
                    _ => {
                        // integer base, integer or float exponent
                        let x = match self.pick_val(s0, |v| Self::is_i(v) && v.mag <= 8.0) {
                            Some(x) => x,
                            None => self.const_typed(DType::I64, &[2, 2], a[3] as u32),
                        };
                        let xv = self.vals[x].clone();
                        let e = (a[1] % 4) as i64;
                        let ec = if a[2] & 1 == 0 {
                            let dims: Vec<i64> = vec![];
                            let lit = if xv.dtype == DType::I32 { TensorLit::i32(&dims, vec![e]) } else { TensorLit::i64(&dims, vec![e]) };
                            self.const_lit("k", lit, e as f64)
                        } else {
                            self.const_f32(&[], |_| e as f32)
                        };
                        self.node("Pow", &[x, ec], vec![], vec![(xv.dtype, xv.shape, 8.0f64.powi(3))]);
                    }
                }
                true
            }
            Variadic => {
                let is_float = a[3] % 4 != 0;
                let x = if is_float {
                    self.some_float(s0)
                } else {
                    match self.pick_val(s0, |v| Self::is_i(v) && v.mag < 1e4) {
                        Some(x) => x,
                        None => return false,
                    }
                };
                let xv = self.vals[x].clone();
                let op = ["Sum", "Mean", "Max", "Min"][idx(a[0], 4)];
                if op == "Mean" && !is_float {
                    return false;
                }
                let count = (a[1] % 3) as usize; // extra operands
                let mut parts = vec![x];
                let mut shape = xv.shape.clone();
                for (j, s) in [s1, s2].iter().enumerate().take(count) {
                    let cand = if a[2] % 3 != 0 {
                        self.pick_val(*s, |v| v.dtype == xv.dtype && v.mag <= TOO_BIG && broadcast_shape(&shape, &v.shape).is_some())
                    } else {
                        None
                    };
                    let y = match cand {
                        Some(y) => y,
                        None => {
                            let r = shape.len();
                            let cshape: Vec<usize> = match (a[2] as usize >> (2 + 2 * j)) % 4 {
                                0 => vec![],
                                1 if r >= 1 => vec![shape[r - 1]],
                                2 if r >= 1 => {
                                    let mut s = shape.clone();
                                    s[0] = 1;
                                    s
                                }
                                _ => shape.clone(),
                            };
                            self.const_typed(xv.dtype, &cshape, a[3] as u32 + j as u32)
                        }
                    };
                    shape = broadcast_shape(&shape, &self.vals[y].shape).unwrap();
                    parts.push(y);
                }
                let mag: f64 = parts.iter().map(|p| self.vals[*p].mag).sum();
                self.node(op, &parts, vec![], vec![(xv.dtype, shape, mag)]);
                true
            }
            BinaryBcast => {
                // both operands broadcast: x has size-1 dims where y is larger and vice versa
                let kind = a[0] % 8;
                let want_bool = kind == 7;
                let want_int = kind == 5 || kind == 6;
                let x = if want_bool {
                    self.pick_val(s0, |v| v.dtype == DType::Bool)
                } else if want_int {
                    self.pick_val(s0, |v| Self::is_i(v) && v.mag < 1e4)
                } else {
                    Some(self.some_float(s0))
                };
                let Some(x) = x else { return false };
                let xv = self.vals[x].clone();
                let r = xv.shape.len();
                // y: per dim equal / 1 / larger-where-x-is-1; then drop or add leading dims
                let mut yshape: Vec<usize> = Vec::new();
                for d in 0..r {
                    let h = hash32(a[1] as u32, d as u32) % 4;
                    yshape.push(match (xv.shape[d], h) {
                        (1, 0) | (1, 1) => 2 + (h as usize),
                        (s, 2) if s != 1 => 1,
                        (s, _) => s,
                    });
                }
                match a[2] % 4 {
                    0 if r > 0 => {
                        let k = 1 + idx(a[3], r);
                        yshape.drain(..k);
                    }
                    1 => {
                        yshape.insert(0, 1 + (a[3] % 3) as usize);
                    }
                    _ => {}
                }
                if yshape.iter().any(|d| *d == 0) && !self.profile.allow_empty_dims {
                    return false;
                }
                let Some(shape) = broadcast_shape(&xv.shape, &yshape) else { return false };
                let ops: &[&str] = if want_bool {
                    &["And", "Or", "Xor"]
                } else if want_int {
                    &["Add", "Sub", "Mul", "Max", "Min", "Equal", "Less", "Div"]
                } else {
                    &["Add", "Sub", "Mul", "Div", "Max", "Min", "Greater", "LessOrEqual", "PRelu", "Pow"]
                };
                let op = ops[idx(a[0] >> 3, ops.len())];
                let seed = self.seed ^ a[3] as u32;
                let y = if want_bool {
                    self.const_typed(DType::Bool, &yshape, a[3] as u32)
                } else if want_int {
                    if op == "Div" {
                        let n: usize = yshape.iter().product();
                        let data: Vec<i64> = (0..n as u32).map(|i| 1 + (hash32(seed, i) % 3) as i64).collect();
                        let dims: Vec<i64> = yshape.iter().map(|d| *d as i64).collect();
                        let lit = if xv.dtype == DType::I32 { TensorLit::i32(&dims, data) } else { TensorLit::i64(&dims, data) };
                        self.const_lit("k", lit, 3.0)
                    } else {
                        self.const_typed(xv.dtype, &yshape, a[3] as u32)
                    }
                } else if op == "Div" {
                    self.const_f32(&yshape, |i| [0.5f32, 1.0, 2.0, -4.0][(hash32(seed, i) % 4) as usize])
                } else if op == "Pow" {
                    self.const_f32(&yshape, |i| [1.0f32, 2.0, 0.0, 3.0][(hash32(seed, i) % 4) as usize])
                } else {
                    self.const_f32(&yshape, |i| nice_f32(seed, i))
                };
                if op == "Pow" && xv.mag > 20.0 {
                    return false;
                }
                if op == "PRelu" && shape != xv.shape {
                    return false;
                }
                let swap = a[2] & 4 != 0 && !matches!(op, "Div" | "PRelu" | "Pow");
                let (l, rr) = if swap { (y, x) } else { (x, y) };
                let out_dt = if matches!(op, "Equal" | "Less" | "Greater" | "LessOrEqual") { DType::Bool } else { xv.dtype };
                let mag = match op {
                    "Mul" => (xv.mag * self.vals[y].mag).max(xv.mag),
                    "Pow" => (xv.mag + 1.0).powf(3.0),
                    "Div" => xv.mag * 2.0,
                    _ => xv.mag + self.vals[y].mag,
                };
                self.node(op, &[l, rr], vec![], vec![(out_dt, shape, mag)]);
                true
            }
            GatherEl => {
                let x = match self.pick_val(s0, |v| !v.shape.is_empty() && v.shape.iter().all(|d| *d > 0)) {
                    Some(x) => x,
                    None => {
                        let sh = self.small_shape(a[3], 2, 1, 4);
                        self.const_typed(DType::F32, &sh, a[3] as u32)
                    }
                };
                let xv = self.vals[x].clone();
                let r = xv.shape.len();
                let seed = self.seed ^ a[3] as u32;
                if a[0] & 1 == 0 {
                    let axis = idx(a[1], r);
                    let mut ishape = xv.shape.clone();
                    for d in 0..r {
                        if d == axis {
                            ishape[d] = 1 + (hash32(a[2] as u32, d as u32) % 3) as usize;
                        } else if hash32(a[2] as u32, d as u32) % 3 == 0 {
                            ishape[d] = 1 + (hash32(a[2] as u32, 9 + d as u32) as usize) % xv.shape[d];
                        }
                    }
                    let size = xv.shape[axis] as i64;
                    let n: usize = ishape.iter().product();
                    let data: Vec<i64> = (0..n as u32)
                        .map(|i| {
                            let h = hash32(seed, i);
                            let v = (h % size as u32) as i64;
                            if h & 0x100 != 0 {
                                v - size
                            } else {
                                v
                            }
                        })
                        .collect();
                    let ind = self.const_i64(&ishape, data);
                    let ax = if a[0] & 2 == 0 { axis as i64 } else { axis as i64 - r as i64 };
                    self.node("GatherElements", &[x, ind], vec![("axis", Attr::Int(ax))], vec![(xv.dtype, ishape, xv.mag)]);
                } else {
                    let k = 1 + idx(a[1], r);
                    let n = 1 + (a[2] % 3) as usize;
                    let lead: Vec<usize> = if a[0] & 2 == 0 { vec![n] } else { vec![n, 2] };
                    let rows: usize = lead.iter().product();
                    let mut data = Vec::new();
                    for i in 0..rows {
                        for j in 0..k {
                            data.push((hash32(seed, (i * 8 + j) as u32) % xv.shape[j] as u32) as i64);
                        }
                    }
                    let mut ishape = lead.clone();
                    ishape.push(k);
                    let ind = self.const_i64(&ishape, data);
                    let mut shape = lead;
                    shape.extend_from_slice(&xv.shape[k..]);
                    self.node("GatherND", &[x, ind], vec![], vec![(xv.dtype, shape, xv.mag)]);
                }
                true
            }
            ScatterF => {
                let x = match self.pick_val(s0, |v| !v.shape.is_empty() && v.shape.iter().all(|d| *d > 0) && (Self::is_f(v) || Self::is_i(v)) && v.mag <= TOO_BIG) {
                    Some(x) => x,
                    None => {
                        let sh = self.small_shape(a[3], 2, 1, 4);
                        self.const_typed(DType::F32, &sh, a[3] as u32)
                    }
                };
                let xv = self.vals[x].clone();
                let r = xv.shape.len();
                let red = ["none", "add", "mul", "min", "max"][idx(a[2], 5)];
                let red = if xv.mag > 50.0 && red == "mul" { "none" } else { red };
                let which = a[0] % 3;
                if which != 1 {
                    // ScatterElements / Scatter: distinct indices along the axis
                    let axis = idx(a[1], r);
                    let mut ishape = xv.shape.clone();
                    for d in 0..r {
                        if hash32(a[3] as u32, d as u32) % 2 == 0 {
                            ishape[d] = 1 + (hash32(a[3] as u32, 9 + d as u32) as usize) % xv.shape[d];
                        }
                    }
                    let size = xv.shape[axis];
                    let n: usize = ishape.iter().product();
                    let mut strides = vec![1usize; r];
                    for d in (0..r.saturating_sub(1)).rev() {
                        strides[d] = strides[d + 1] * ishape[d + 1];
                    }
                    let off = a[3] as usize;
                    let data: Vec<i64> = (0..n)
                        .map(|i| {
                            let along = (i / strides[axis]) % ishape[axis];
                            let lane = i - along * strides[axis];
                            let v = ((along + off + lane) % size) as i64;
                            if (lane + off) % 3 == 0 {
                                v - size as i64
                            } else {
                                v
                            }
                        })
                        .collect();
                    let ind = self.const_i64(&ishape, data);
                    let upd = self.const_typed(xv.dtype, &ishape, a[3] as u32 ^ 0x55);
                    let ax = if a[0] & 4 == 0 { axis as i64 } else { axis as i64 - r as i64 };
                    let mag = xv.mag * 5.0 + 5.0;
                    if which == 2 {
                        self.node("Scatter", &[x, ind, upd], vec![("axis", Attr::Int(ax))], vec![(xv.dtype, xv.shape, mag)]);
                    } else {
                        let mut attrs = vec![("axis", Attr::Int(ax))];
                        if red != "none" || a[0] & 8 != 0 {
                            attrs.push(("reduction", Attr::Str(red.into())));
                        }
                        self.node("ScatterElements", &[x, ind, upd], attrs, vec![(xv.dtype, xv.shape, mag)]);
                    }
                } else {
                    let k = 1 + idx(a[1], r);
                    let total: usize = xv.shape[..k].iter().product();
                    let n = 1 + idx(a[3], total.min(3));
                    let off = a[3] as usize;
                    let mut data = Vec::new();
                    for i in 0..n {
                        let mut flat = (off + i) % total;
                        let mut tuple = vec![0i64; k];
                        for j in (0..k).rev() {
                            tuple[j] = (flat % xv.shape[j]) as i64;
                            flat /= xv.shape[j];
                        }
                        data.extend(tuple);
                    }
                    let ind = self.const_i64(&[n, k], data);
                    let mut ushape = vec![n];
                    ushape.extend_from_slice(&xv.shape[k..]);
                    let upd = self.const_typed(xv.dtype, &ushape, a[3] as u32 ^ 0x77);
                    let mut attrs = vec![];
                    if red != "none" {
                        attrs.push(("reduction", Attr::Str(red.into())));
                    }
                    self.node("ScatterND", &[x, ind, upd], attrs, vec![(xv.dtype, xv.shape, xv.mag * 5.0 + 5.0)]);
                }
                true
            }
            OneHot => {
                let x = match self.pick_val(s0, |v| Self::is_i(v) && v.mag <= 8.0 && v.shape.len() <= 3) {
                    Some(x) => x,
                    None => {
                        let sh = self.small_shape(a[3], 1 + (a[3] % 2) as usize, 1, 3);
                        self.const_typed(DType::I64, &sh, a[3] as u32)
                    }
                };
                let xv = self.vals[x].clone();
                let r = xv.shape.len();
                let depth = 1 + (a[0] % 5) as i64;
                let dc = if a[1] & 1 == 0 { self.const_i64(&[], vec![depth]) } else { self.const_i64(&[1], vec![depth]) };
                let float_vals = a[1] & 2 == 0;
                let vals = if float_vals { self.const_f32(&[2], |i| if i == 0 { 0.25 } else { 2.5 }) } else { self.const_i64(&[2], vec![-1, 7]) };
                let pos = idx(a[2], r + 1);
                let axis = if a[3] & 1 == 0 { pos as i64 } else { pos as i64 - (r as i64 + 1) };
                let mut shape = xv.shape.clone();
                shape.insert(pos, depth as usize);
                let dt = if float_vals { DType::F32 } else { DType::I64 };
                self.node("OneHot", &[x, dc, vals], vec![("axis", Attr::Int(axis))], vec![(dt, shape, 7.0)]);
                true
            }
            TopK => {
                let x = self.float_like(s0, |v| !v.shape.is_empty() && v.shape.iter().all(|d| *d > 0), &[2, 4], a[3] as u32);
                let xv = self.vals[x].clone();
                let r = xv.shape.len();
                let axis = idx(a[0], r);
                let k = 1 + idx(a[1], xv.shape[axis]);
                let kc = self.const_i64(&[1], vec![k as i64]);
                let mut shape = xv.shape.clone();
                shape[axis] = k;
                let ax = if a[2] & 1 == 0 { axis as i64 } else { axis as i64 - r as i64 };
                let largest = ((a[2] >> 1) & 1) as i64;
                let mut attrs = vec![("axis", Attr::Int(ax)), ("largest", Attr::Int(largest))];
                if a[2] & 4 != 0 {
                    attrs.push(("sorted", Attr::Int(1)));
                }
                self.node("TopK", &[x, kc], attrs, vec![(DType::F32, shape.clone(), xv.mag), (DType::I64, shape, xv.shape[axis] as f64)]);
                self.maybe_drop_outputs(a[3]);
                true
            }
            NonZero => {
                // the output shape depends on the data, so the input is a constant whose data is known here
                let dt = [DType::F32, DType::I64, DType::Bool, DType::I32][idx(a[0], 4)];
                let rank = (a[1] % 4) as usize;
                let shape = self.small_shape(a[2], rank, 1, 3);
                let n: usize = shape.iter().product();
                let seed = self.seed ^ a[3] as u32;
                let bits: Vec<i64> = (0..n as u32).map(|i| if hash32(seed, i) % 3 == 0 { 0 } else { 1 + (hash32(seed, i) % 3) as i64 }).collect();
                let nnz = bits.iter().filter(|b| **b != 0).count();
                let dims: Vec<i64> = shape.iter().map(|d| *d as i64).collect();
                let lit = match dt {
                    DType::F32 => TensorLit::f32(&dims, bits.iter().map(|b| *b as f32 * 0.5).collect()),
                    DType::Bool => TensorLit { dtype: DType::Bool, dims, f: vec![], i: bits.iter().map(|b| (*b != 0) as i64).collect(), raw: true },
                    DType::I32 => TensorLit::i32(&dims, bits),
                    _ => TensorLit::i64(&dims, bits),
                };
                let c = self.const_lit("z", lit, 3.0);
                self.node("NonZero", &[c], vec![], vec![(DType::I64, vec![rank, nnz], 3.0)]);
                true
            }
            Trilu => {
                let x = match self.pick_val(s0, |v| v.shape.len() >= 2 && (Self::is_f(v) || Self::is_i(v))) {
                    Some(x) => x,
                    None => {
                        let sh = self.small_shape(a[3], 2, 1, 4);
                        self.const_typed(DType::F32, &sh, a[3] as u32)
                    }
                };
                let xv = self.vals[x].clone();
                let upper = (a[0] & 1) as i64;
                let mut ins = vec![x];
                if a[1] % 3 != 0 {
                    ins.push(self.const_i64(&[], vec![(a[2] % 7) as i64 - 3]));
                }
                self.node("Trilu", &ins, vec![("upper", Attr::Int(upper))], vec![(xv.dtype, xv.shape, xv.mag)]);
                true
            }
            Range if a[3] & 4 != 0 => {
                // ConstantOfShape with a typed value attribute (the base family only uses f32)
                let rank = (a[0] % 4) as usize;
                let shape = self.small_shape(a[1], rank, 0, 3);
                let shape: Vec<usize> = if self.profile.allow_empty_dims { shape } else { shape.iter().map(|d| (*d).max(1)).collect() };
                let sh = self.const_i64_vec(&shape.iter().map(|d| *d as i64).collect::<Vec<_>>());
                let dt = [DType::I64, DType::I32, DType::U8, DType::I8, DType::Bool, DType::F32][idx(a[2], 6)];
                let val = match dt {
                    DType::F32 => TensorLit::f32(&[1], vec![1.5]),
                    DType::Bool => TensorLit { dtype: DType::Bool, dims: vec![1], f: vec![], i: vec![1], raw: true },
                    d => TensorLit { dtype: d, dims: vec![1], f: vec![], i: vec![3], raw: a[2] & 0x100 != 0 },
                };
                let attrs = if a[2] & 0x200 != 0 && dt == DType::F32 { vec![] } else { vec![("value", Attr::Tensor(val))] };
                self.node("ConstantOfShape", &[sh], attrs, vec![(dt, shape, 3.0)]);
                true
            }
            Range => {
                let start = (a[0] % 7) as i64 - 3;
                let count = (a[1] % 6) as i64;
                let delta = [1i64, 2, -1, -2, 3][idx(a[2], 5)];
                let limit = start + delta * count - if count > 0 && a[3] & 1 == 1 { delta.signum() } else { 0 };
                let n = if delta > 0 { ((limit - start).max(0) + delta - 1) / delta } else { ((start - limit).max(0) + (-delta) - 1) / (-delta) };
                let float = a[3] & 2 != 0;
                let (s, l, d, dt) = if float {
                    (self.const_f32(&[], |_| start as f32), self.const_f32(&[], |_| limit as f32), self.const_f32(&[], |_| delta as f32), DType::F32)
                } else {
                    (self.const_i64(&[], vec![start]), self.const_i64(&[], vec![limit]), self.const_i64(&[], vec![delta]), DType::I64)
                };
                self.node("Range", &[s, l, d], vec![], vec![(dt, vec![n as usize], 20.0)]);
                true
            }
            EyeLike => {
                let x = match self.pick_val(s0, |v| v.shape.len() == 2) {
                    Some(x) => x,
                    None => {
                        let sh = self.small_shape(a[3], 2, 1, 4);
                        self.const_typed([DType::F32, DType::I64][(a[3] % 2) as usize], &sh, a[3] as u32)
                    }
                };
                let xv = self.vals[x].clone();
                let mut attrs = vec![];
                let mut dt = xv.dtype;
                if a[0] % 3 != 0 {
                    dt = [DType::F32, DType::I64, DType::I32, DType::U8, DType::I8, DType::Bool][idx(a[1], 6)];
                    attrs.push(("dtype", Attr::Int(dt.onnx_code())));
                }
                if a[2] % 2 == 0 {
                    attrs.push(("k", Attr::Int((a[2] % 5) as i64 - 2)));
                }
                self.node("EyeLike", &[x], attrs, vec![(dt, xv.shape, 1.0)]);
                true
            }
            DepthToSpace => {
                let b = 2usize;
                let x = match self.pick_val(s0, |v| Self::is_f(v) && v.shape.len() == 4 && v.shape[1] % (b * b) == 0 && v.shape.iter().all(|d| *d > 0)) {
                    Some(x) => x,
                    None => {
                        let sh = vec![1 + (a[3] % 2) as usize, 4 * (1 + (a[3] as usize >> 2) % 2), 1 + (a[3] as usize >> 4) % 3, 1 + (a[3] as usize >> 6) % 3];
                        self.const_typed(DType::F32, &sh, a[3] as u32)
                    }
                };
                let xv = self.vals[x].clone();
                let shape = vec![xv.shape[0], xv.shape[1] / (b * b), xv.shape[2] * b, xv.shape[3] * b];
                let mut attrs = vec![("blocksize", Attr::Int(b as i64))];
                match a[0] % 3 {
                    0 => attrs.push(("mode", Attr::Str("DCR".into()))),
                    1 => attrs.push(("mode", Attr::Str("CRD".into()))),
                    _ => {}
                }
                self.node("DepthToSpace", &[x], attrs, vec![(xv.dtype, shape, xv.mag)]);
                true
            }
            Norm2 => {
                let seed = self.seed ^ a[3] as u32;
                match a[0] % 6 {
                    0 => {
                        let x = self.float_like(s0, |v| v.shape.len() >= 3 && v.numel() > 0, &[2, 3, 2, 2], a[3] as u32);
                        let xv = self.vals[x].clone();
                        let c = xv.shape[1];
                        let scale = self.const_f32(&[c], |i| 0.5 + (hash32(seed, i) % 4) as f32 * 0.25);
                        let bias = self.const_f32(&[c], |i| nice_f32(seed ^ 3, i) * 0.25);
                        let attrs = if a[1] & 1 == 0 { vec![] } else { vec![("epsilon", Attr::Float(1e-3))] };
                        let n: f64 = xv.shape[2..].iter().product::<usize>() as f64;
                        self.node("InstanceNormalization", &[x, scale, bias], attrs, vec![(DType::F32, xv.shape, 2.0 * n.sqrt() + 2.0)]);
                    }
                    1 => {
                        let x = self.float_like(s0, |v| v.shape.len() >= 2 && v.numel() > 0, &[2, 3, 2], a[3] as u32);
                        let xv = self.vals[x].clone();
                        let c = xv.shape[1];
                        let scale = self.const_f32(&[c], |i| 0.5 + (hash32(seed, i) % 4) as f32 * 0.25);
                        let bias = self.const_f32(&[c], |i| nice_f32(seed ^ 3, i) * 0.25);
                        let mean = self.const_f32(&[c], |i| nice_f32(seed ^ 5, i) * 0.25);
                        let var = self.const_f32(&[c], |i| 0.25 + (hash32(seed ^ 7, i) % 8) as f32 * 0.25);
                        let attrs = if a[1] & 1 == 0 { vec![] } else { vec![("epsilon", Attr::Float(1e-3))] };
                        self.node("BatchNormalization", &[x, scale, bias, mean, var], attrs, vec![(DType::F32, xv.shape, xv.mag * 6.0 + 4.0)]);
                    }
                    2 => {
                        let x = self.some_float(s0);
                        let xv = self.vals[x].clone();
                        let r = xv.shape.len();
                        if r == 0 {
                            return false;
                        }
                        let axis = idx(a[1], r);
                        let ax = if a[2] & 1 == 0 { axis as i64 } else { axis as i64 - r as i64 };
                        let p = 1 + ((a[2] >> 1) & 1) as i64;
                        // avoid 0/0: normalise |x| + 1
                        let ab = self.node("Abs", &[x], vec![], vec![(DType::F32, xv.shape.clone(), xv.mag)])[0];
                        let one = self.const_f32(&[], |_| 1.0);
                        let pos = self.node("Add", &[ab, one], vec![], vec![(DType::F32, xv.shape.clone(), xv.mag + 1.0)])[0];
                        self.node("LpNormalization", &[pos], vec![("axis", Attr::Int(ax)), ("p", Attr::Int(p))], vec![(DType::F32, xv.shape, 1.0)]);
                    }
                    3 => {
                        let x = self.some_float(s0);
                        let xv = self.vals[x].clone();
                        let r = xv.shape.len();
                        if r == 0 || xv.numel() == 0 {
                            return false;
                        }
                        let d = xv.shape[r - 1];
                        let scale = self.const_f32(&[d], |i| 0.5 + (hash32(seed, i) % 4) as f32 * 0.25);
                        let mag = 2.0 * (d as f64).sqrt() + 2.0;
                        self.node("SimplifiedLayerNormalization", &[x, scale], vec![("axis", Attr::Int(-1)), ("epsilon", Attr::Float(1e-5))], vec![(DType::F32, xv.shape, mag)]);
                    }
                    k => {
                        let x = self.float_like(s0, |v| v.shape.len() == 3 && v.numel() > 0, &[1, 2, 4], a[3] as u32);
                        let xv = self.vals[x].clone();
                        let h = xv.shape[2];
                        let skip = self.const_f32(&xv.shape, |i| nice_f32(seed ^ 11, i));
                        let gamma = self.const_f32(&[h], |i| 0.5 + (hash32(seed, i) % 4) as f32 * 0.25);
                        let mut names = vec![xv.name.clone(), self.vals[skip].name.clone(), self.vals[gamma].name.clone()];
                        let simplified = k == 5;
                        if !simplified {
                            if a[1] & 1 == 0 {
                                let beta = self.const_f32(&[h], |i| nice_f32(seed ^ 13, i) * 0.25);
                                names.push(self.vals[beta].name.clone());
                            } else {
                                names.push(String::new());
                            }
                        }
                        if a[1] & 2 == 0 {
                            let bias = self.const_f32(&[h], |i| nice_f32(seed ^ 17, i) * 0.25);
                            names.push(self.vals[bias].name.clone());
                        }
                        while names.last().map(|s| s.is_empty()).unwrap_or(false) {
                            names.pop();
                        }
                        let mag = 2.0 * (h as f64).sqrt() + 3.0;
                        let op = if simplified { "SkipSimplifiedLayerNormalization" } else { "SkipLayerNormalization" };
                        self.node_named(op, names, vec![("epsilon", Attr::Float(1e-5))], vec![(DType::F32, xv.shape, mag)], xv.random);
                        self.set_domain(MS);
                    }
                }
                true
            }
            ResizeF => {
                let x = self.float_like(s0, |v| v.shape.len() == 4 && v.numel() > 0, &[1, 2, 2, 3], a[3] as u32);
                let xv = self.vals[x].clone();
                let (h, w) = (xv.shape[2], xv.shape[3]);
                let factors = [1.0f32, 2.0, 0.5, 1.5, 3.0];
                let mut sh = factors[idx(a[0], 5)];
                let mut sw = factors[idx(a[1], 5)];
                if ((h as f32) * sh).floor() < 1.0 {
                    sh = 1.0;
                }
                if ((w as f32) * sw).floor() < 1.0 {
                    sw = 1.0;
                }
                let oh = ((h as f32) * sh).floor() as usize;
                let ow = ((w as f32) * sw).floor() as usize;
                let shape = vec![xv.shape[0], xv.shape[1], oh, ow];
                let mode = ["nearest", "linear"][(a[2] % 2) as usize];
                if a[2] % 5 == 4 {
                    let sc = self.const_f32(&[4], |i| [1.0, 1.0, sh, sw][i as usize]);
                    self.node("Upsample", &[x, sc], vec![("mode", Attr::Str(mode.into()))], vec![(DType::F32, shape, xv.mag)]);
                    return true;
                }
                let mut attrs = vec![("mode", Attr::Str(mode.into()))];
                let ctm = ["half_pixel", "asymmetric", "align_corners", "pytorch_half_pixel"][idx(a[3], 4)];
                if a[3] & 1 == 0 {
                    attrs.push(("coordinate_transformation_mode", Attr::Str(ctm.into())));
                }
                if mode == "nearest" && a[3] & 2 == 0 {
                    let nm = ["round_prefer_floor", "floor", "ceil", "round_prefer_ceil"][(a[3] as usize >> 2) % 4];
                    attrs.push(("nearest_mode", Attr::Str(nm.into())));
                }
                let use_sizes = a[2] % 3 == 0;
                let names = if use_sizes {
                    let sz = self.const_i64_vec(&[xv.shape[0] as i64, xv.shape[1] as i64, oh as i64, ow as i64]);
                    vec![xv.name.clone(), String::new(), String::new(), self.vals[sz].name.clone()]
                } else {
                    let sc = self.const_f32(&[4], |i| [1.0, 1.0, sh, sw][i as usize]);
                    vec![xv.name.clone(), String::new(), self.vals[sc].name.clone()]
                };
                self.node_named("Resize", names, attrs, vec![(DType::F32, shape, xv.mag)], xv.random);
                true
            }
            Quant => {
                let seed = self.seed ^ a[3] as u32;
                let qdt = if a[1] & 1 == 0 { DType::U8 } else { DType::I8 };
                let qgen = move |salt: u32| move |i: u32| if qdt == DType::U8 { (hash32(seed ^ salt, i) % 256) as i64 } else { (hash32(seed ^ salt, i) % 256) as i64 - 128 };
                match a[0] % 6 {
                    0 => {
                        let x = self.some_float(s0);
                        let xv = self.vals[x].clone();
                        let r = xv.shape.len();
                        let per_axis = r >= 1 && a[2] % 3 == 0;
                        let axis = if per_axis { idx(a[2] >> 4, r) } else { 0 };
                        let sshape: Vec<usize> = if per_axis { vec![xv.shape[axis]] } else { vec![] };
                        let scale = self.const_f32(&sshape, |i| [0.125f32, 0.25, 0.5, 0.0625][(hash32(seed, i) % 4) as usize]);
                        let mut ins = vec![x, scale];
                        let mut attrs = vec![];
                        if per_axis {
                            attrs.push(("axis", Attr::Int(axis as i64)));
                        }
                        if a[1] & 2 == 0 {
                            let zp = self.const_small(qdt, &sshape, |i| if qdt == DType::U8 { 100 + (i as i64 % 50) } else { (i as i64 % 50) - 25 });
                            ins.push(zp);
                        } else {
                            attrs.push(("output_dtype", Attr::Int(qdt.onnx_code())));
                        }
                        self.node("QuantizeLinear", &ins, attrs, vec![(qdt, xv.shape, 255.0)]);
                    }
                    1 => {
                        let x = match self.pick_val(s0, |v| matches!(v.dtype, DType::U8 | DType::I8)) {
                            Some(x) => x,
                            None => {
                                let sh = self.small_shape(a[2], 1 + (a[2] % 3) as usize, 1, 4);
                                self.const_small(qdt, &sh, qgen(1))
                            }
                        };
                        let xv = self.vals[x].clone();
                        let r = xv.shape.len();
                        let per_axis = r >= 1 && a[2] % 3 == 0;
                        let axis = if per_axis { idx(a[2] >> 4, r) } else { 0 };
                        let sshape: Vec<usize> = if per_axis { vec![xv.shape[axis]] } else { vec![] };
                        let scale = self.const_f32(&sshape, |i| [0.125f32, 0.25, 0.5, 0.0625][(hash32(seed, i) % 4) as usize]);
                        let mut ins = vec![x, scale];
                        let mut attrs = vec![];
                        if per_axis {
                            attrs.push(("axis", Attr::Int(axis as i64)));
                        }
                        if a[1] & 2 == 0 {
                            let xd = xv.dtype;
                            let zp = self.const_small(xd, &sshape, |i| if xd == DType::U8 { 100 + (i as i64 % 50) } else { (i as i64 % 50) - 25 });
                            ins.push(zp);
                        }
                        self.node("DequantizeLinear", &ins, attrs, vec![(DType::F32, xv.shape, 200.0)]);
                    }
                    2 => {
                        let x = self.some_float(s0);
                        let xv = self.vals[x].clone();
                        if xv.numel() == 0 {
                            return false;
                        }
                        self.node("DynamicQuantizeLinear", &[x], vec![], vec![(DType::U8, xv.shape, 255.0), (DType::F32, vec![], 1.0), (DType::U8, vec![], 255.0)]);
                        self.maybe_drop_outputs(a[2]);
                    }
                    3 | 4 => {
                        // MatMulInteger
                        let m = 1 + (a[2] % 3) as usize;
                        let k = 1 + (a[2] as usize >> 2) % 4;
                        let n = 1 + (a[2] as usize >> 4) % 3;
                        let lhs = match self.pick_val(s0, |v| matches!(v.dtype, DType::U8 | DType::I8) && v.shape.len() >= 2) {
                            Some(x) => x,
                            None => self.const_small(qdt, &[m, k], qgen(2)),
                        };
                        let lv = self.vals[lhs].clone();
                        let lr = lv.shape.len();
                        let k = lv.shape[lr - 1];
                        let bdt = if a[1] & 4 == 0 { DType::I8 } else { DType::U8 };
                        let rhs = self.const_small(bdt, &[k, n], |i| if bdt == DType::U8 { (hash32(seed ^ 3, i) % 256) as i64 } else { (hash32(seed ^ 3, i) % 256) as i64 - 128 });
                        let mut names = vec![lv.name.clone(), self.vals[rhs].name.clone()];
                        let ldt = lv.dtype;
                        if a[1] & 8 == 0 {
                            let zp = self.const_small(ldt, &[], |_| if ldt == DType::U8 { 128 } else { -3 });
                            names.push(self.vals[zp].name.clone());
                            if a[1] & 16 == 0 {
                                let bz = if a[1] & 32 == 0 { self.const_small(bdt, &[], |_| 2) } else { self.const_small(bdt, &[n], |i| (i as i64 % 5) + 1) };
                                names.push(self.vals[bz].name.clone());
                            }
                        }
                        let mut shape = lv.shape[..lr - 1].to_vec();
                        shape.push(n);
                        self.node_named("MatMulInteger", names, vec![], vec![(DType::I32, shape, 1e6)], lv.random);
                    }
                    _ => {
                        // ConvInteger
                        let c = 1 + (a[2] % 2) as usize;
                        let x = self.const_small(DType::U8, &[1, c, 3, 3], |i| (hash32(seed ^ 4, i) % 256) as i64);
                        let mo = 1 + (a[2] as usize >> 2) % 2;
                        let kh = 1 + (a[2] as usize >> 4) % 2;
                        let wdt = if a[1] & 4 == 0 { DType::I8 } else { DType::U8 };
                        let w = self.const_small(wdt, &[mo, c, kh, kh], |i| if wdt == DType::U8 { (hash32(seed ^ 5, i) % 256) as i64 } else { (hash32(seed ^ 5, i) % 256) as i64 - 128 });
                        let mut ins = vec![x, w];
                        if a[1] & 8 == 0 {
                            ins.push(self.const_small(DType::U8, &[], |_| 7));
                            if a[1] & 16 == 0 {
                                ins.push(self.const_small(wdt, &[], |_| 1));
                            }
                        }
                        let o = 3 - kh + 1;
                        self.node("ConvInteger", &ins, vec![("kernel_shape", Attr::Ints(vec![kh as i64, kh as i64]))], vec![(DType::I32, vec![1, mo, o, o], 1e6)]);
                    }
                }
                true
            }
            Seq => {
                // SequenceConstruct(x, ...) then an operator on the sequence
                let Some(x) = self.pick_val(s0, |v| v.mag <= TOO_BIG) else { return false };
                let xv = self.vals[x].clone();
                let extra = (a[1] % 3) as usize;
                let same_shape = a[0] % 8 == 4;
                let mut items: Vec<V> = vec![xv.clone()];
                for j in 0..extra {
                    let sh = if same_shape || a[2] & (1 << j) == 0 { xv.shape.clone() } else { self.small_shape(a[2].wrapping_add(j as u16), (a[2] as usize >> 3) % 3, 1, 3) };
                    let c = self.const_typed(xv.dtype, &sh, a[3] as u32 + j as u32);
                    // const_typed maps unsupported dtypes to i64
                    if self.vals[c].dtype != xv.dtype {
                        return false;
                    }
                    items.push(self.vals[c].clone());
                }
                let n = items.len() as i64;
                let item_names: Vec<String> = items.iter().map(|v| v.name.clone()).collect();
                match a[0] % 8 {
                    6 => {
                        // SequenceEmpty -> SequenceInsert -> SequenceAt
                        let s0n = self.raw_node("SequenceEmpty", vec![], vec![("dtype", Attr::Int(xv.dtype.onnx_code()))], 1)[0].clone();
                        let s1n = self.raw_node("SequenceInsert", vec![s0n, xv.name.clone()], vec![], 1)[0].clone();
                        let zero = self.const_i64(&[], vec![0]);
                        let out = self.raw_node("SequenceAt", vec![s1n, self.vals[zero].name.clone()], vec![], 1)[0].clone();
                        self.adopt(&out, xv.dtype, xv.shape, xv.mag);
                    }
                    5 => {
                        // SplitToSequence -> SequenceAt / SequenceLength
                        if xv.shape.is_empty() || xv.numel() == 0 {
                            return false;
                        }
                        let r = xv.shape.len();
                        let axis = idx(a[2], r);
                        let size = xv.shape[axis];
                        let mut ins = vec![xv.name.clone()];
                        let mut attrs = vec![("axis", Attr::Int(axis as i64))];
                        let (first, count, keep) = match a[3] % 3 {
                            0 => {
                                // default: pieces of size 1, keepdims attr decides rank
                                let keep = (a[3] >> 2) & 1;
                                attrs.push(("keepdims", Attr::Int(keep as i64)));
                                (1usize, size, keep == 1)
                            }
                            1 => {
                                let chunk = 1 + idx(a[3] >> 2, size);
                                let c = self.const_i64(&[], vec![chunk as i64]);
                                ins.push(self.vals[c].name.clone());
                                (chunk, (size + chunk - 1) / chunk, true)
                            }
                            _ => {
                                let f = 1 + idx(a[3] >> 2, size);
                                let parts: Vec<i64> = if f == size { vec![f as i64] } else { vec![f as i64, (size - f) as i64] };
                                let cnt = parts.len();
                                let c = self.const_i64_vec(&parts);
                                ins.push(self.vals[c].name.clone());
                                (f, cnt, true)
                            }
                        };
                        let s = self.raw_node("SplitToSequence", ins, attrs, 1)[0].clone();
                        if a[1] & 4 == 0 {
                            let zero = self.const_i64(&[], vec![0]);
                            let out = self.raw_node("SequenceAt", vec![s, self.vals[zero].name.clone()], vec![], 1)[0].clone();
                            let mut sh = xv.shape.clone();
                            if keep {
                                sh[axis] = first;
                            } else {
                                sh.remove(axis);
                            }
                            self.adopt(&out, xv.dtype, sh, xv.mag);
                        } else {
                            let out = self.raw_node("SequenceLength", vec![s], vec![], 1)[0].clone();
                            self.adopt(&out, DType::I64, vec![], count as f64);
                        }
                    }
                    k => {
                        let s1n = self.raw_node("SequenceConstruct", item_names, vec![], 1)[0].clone();
                        match k {
                            0 | 7 => {
                                let p = idx(a[2], n as usize) as i64;
                                let pos = if a[3] & 1 == 0 { p } else { p - n };
                                let pc = self.const_i64(&[], vec![pos]);
                                let out = self.raw_node("SequenceAt", vec![s1n, self.vals[pc].name.clone()], vec![], 1)[0].clone();
                                let it = &items[p as usize];
                                self.adopt(&out, it.dtype, it.shape.clone(), it.mag);
                            }
                            1 => {
                                let out = self.raw_node("SequenceLength", vec![s1n], vec![], 1)[0].clone();
                                self.adopt(&out, DType::I64, vec![], n as f64);
                            }
                            2 => {
                                let ysh = self.small_shape(a[3], (a[3] % 3) as usize, 1, 3);
                                let y = self.const_typed(xv.dtype, &ysh, a[3] as u32 ^ 0x31);
                                if self.vals[y].dtype != xv.dtype {
                                    return false;
                                }
                                let yv = self.vals[y].clone();
                                let mut ins = vec![s1n, yv.name.clone()];
                                let mut list = items.clone();
                                if a[2] % 3 != 0 {
                                    let p = idx(a[2], n as usize + 1) as i64;
                                    let pos = if a[3] & 1 == 0 || p == n { p } else { p - n };
                                    let pc = self.const_i64(&[], vec![pos]);
                                    ins.push(self.vals[pc].name.clone());
                                    list.insert(p as usize, yv);
                                } else {
                                    list.push(yv);
                                }
                                let s2n = self.raw_node("SequenceInsert", ins, vec![], 1)[0].clone();
                                let q = idx(a[3] >> 4, list.len());
                                let qc = self.const_i64(&[], vec![q as i64]);
                                let out = self.raw_node("SequenceAt", vec![s2n, self.vals[qc].name.clone()], vec![], 1)[0].clone();
                                let it = &list[q];
                                self.adopt(&out, it.dtype, it.shape.clone(), it.mag);
                            }
                            3 => {
                                let mut ins = vec![s1n];
                                let mut list = items.clone();
                                if a[2] % 3 != 0 {
                                    let p = idx(a[2], n as usize) as i64;
                                    let pos = if a[3] & 1 == 0 { p } else { p - n };
                                    let pc = self.const_i64(&[], vec![pos]);
                                    ins.push(self.vals[pc].name.clone());
                                    list.remove(p as usize);
                                } else {
                                    list.pop();
                                }
                                let s2n = self.raw_node("SequenceErase", ins, vec![], 1)[0].clone();
                                if list.is_empty() || a[3] & 2 == 0 {
                                    let out = self.raw_node("SequenceLength", vec![s2n], vec![], 1)[0].clone();
                                    self.adopt(&out, DType::I64, vec![], n as f64);
                                } else {
                                    let zero = self.const_i64(&[], vec![0]);
                                    let out = self.raw_node("SequenceAt", vec![s2n, self.vals[zero].name.clone()], vec![], 1)[0].clone();
                                    let it = &list[0];
                                    self.adopt(&out, it.dtype, it.shape.clone(), it.mag);
                                }
                            }
                            _ => {
                                // ConcatFromSequence (items have the same shape)
                                let r = xv.shape.len();
                                if r == 0 {
                                    return false;
                                }
                                let new_axis = a[2] & 1 == 1;
                                let (axis, shape) = if new_axis {
                                    // rten resolves the new axis against the item rank, so axis == rank is not accepted
                                    let ax = idx(a[3], r);
                                    let mut sh = xv.shape.clone();
                                    sh.insert(ax, n as usize);
                                    (ax, sh)
                                } else {
                                    let ax = idx(a[3], r);
                                    let mut sh = xv.shape.clone();
                                    sh[ax] *= n as usize;
                                    (ax, sh)
                                };
                                let out = self.raw_node("ConcatFromSequence", vec![s1n], vec![("axis", Attr::Int(axis as i64)), ("new_axis", Attr::Int(new_axis as i64))], 1)[0].clone();
                                let mag = items.iter().map(|v| v.mag).fold(0.0, f64::max);
                                self.adopt(&out, xv.dtype, shape, mag);
                            }
                        }
                    }
                }
                true
            }
            Misc => {
                let seed = self.seed ^ a[3] as u32;
                match a[0] % 16 {
                    0 => {
                        let Some(x) = self.pick_val(s0, |v| v.mag < 1e6) else { return false };
                        let xv = self.vals[x].clone();
                        let to = [DType::F32, DType::I64, DType::I32, DType::Bool, DType::U8, DType::I8][idx(a[1], 6)];
                        let like = match to {
                            DType::U8 | DType::I8 => self.const_small(to, &[1], |_| 1),
                            _ => self.const_typed(to, &[], 1),
                        };
                        let mag = if to == DType::Bool { 1.0 } else { xv.mag.min(255.0) };
                        self.node("CastLike", &[x, like], vec![], vec![(to, xv.shape, mag)]);
                    }
                    1 => {
                        let x = match self.pick_val(s0, |v| v.shape.len() >= 2 && v.shape.iter().all(|d| *d > 0)) {
                            Some(x) => x,
                            None => self.const_typed(DType::F32, &[3, 2], a[3] as u32),
                        };
                        let xv = self.vals[x].clone();
                        let time_first = a[1] & 1 == 0;
                        let (t_ax, b_ax) = if time_first { (0, 1) } else { (1, 0) };
                        let t = xv.shape[t_ax];
                        let b = xv.shape[b_ax];
                        let lens = self.const_i64(&[b], (0..b as u32).map(|i| 1 + (hash32(seed, i) as usize % t) as i64).collect());
                        self.node("ReverseSequence", &[x, lens], vec![("time_axis", Attr::Int(t_ax as i64)), ("batch_axis", Attr::Int(b_ax as i64))], vec![(xv.dtype, xv.shape, xv.mag)]);
                    }
                    2 => {
                        let x = self.float_like(s0, |v| v.shape.len() == 2 && v.mag <= 100.0, &[2, 3], a[3] as u32);
                        let xv = self.vals[x].clone();
                        let (i, j) = (xv.shape[0], xv.shape[1]);
                        let k = 1 + (a[2] % 3) as usize;
                        let mag = xv.mag * 4.0 * j.max(1) as f64 + 1.0;
                        match a[1] % 5 {
                            0 => {
                                let y = self.const_f32(&[j, k], |n| nice_f32(seed, n) * 0.25);
                                self.node("Einsum", &[x, y], vec![("equation", Attr::Str("ij,jk->ik".into()))], vec![(DType::F32, vec![i, k], mag)]);
                            }
                            1 => {
                                self.node("Einsum", &[x], vec![("equation", Attr::Str("ij->ji".into()))], vec![(DType::F32, vec![j, i], xv.mag)]);
                            }
                            2 => {
                                self.node("Einsum", &[x], vec![("equation", Attr::Str("ij->i".into()))], vec![(DType::F32, vec![i], mag)]);
                            }
                            3 => {
                                let y = self.const_f32(&[i, j], |n| nice_f32(seed, n) * 0.25);
                                self.node("Einsum", &[x, y], vec![("equation", Attr::Str("ij,ij->ij".into()))], vec![(DType::F32, vec![i, j], mag)]);
                            }
                            _ => {
                                let y = self.const_f32(&[k, j], |n| nice_f32(seed, n) * 0.25);
                                self.node("Einsum", &[x, y], vec![("equation", Attr::Str("ij,kj->ik".into()))], vec![(DType::F32, vec![i, k], mag)]);
                            }
                        }
                    }
                    3 => {
                        let x = self.float_like(s0, |v| v.shape.len() == 4 && v.mag <= 100.0 && v.numel() > 0, &[1, 2, 2, 3], a[3] as u32);
                        let xv = self.vals[x].clone();
                        let (c, h, w) = (xv.shape[1], xv.shape[2], xv.shape[3]);
                        let m = 1 + (a[1] % 2) as usize;
                        let kh = 1 + (a[1] as usize >> 2) % 2;
                        let kw = 1 + (a[1] as usize >> 4) % 2;
                        let stride = 1 + ((a[2]) % 2) as usize;
                        let wt = self.const_f32(&[c, m, kh, kw], |n| nice_f32(seed, n) * 0.25);
                        let mut ins = vec![x, wt];
                        if a[2] & 4 == 0 {
                            ins.push(self.const_f32(&[m], |n| nice_f32(seed ^ 9, n)));
                        }
                        let oh = (h - 1) * stride + kh;
                        let ow = (w - 1) * stride + kw;
                        let mag = xv.mag * (c * kh * kw) as f64 + 4.0;
                        self.node(
                            "ConvTranspose",
                            &ins,
                            vec![("kernel_shape", Attr::Ints(vec![kh as i64, kw as i64])), ("strides", Attr::Ints(vec![stride as i64, stride as i64]))],
                            vec![(DType::F32, vec![xv.shape[0], m, oh, ow], mag)],
                        );
                    }
                    4 => {
                        let x = self.float_like(s0, |v| v.shape.len() == 4 && v.numel() > 0, &[1, 2, 3, 3], a[3] as u32);
                        let xv = self.vals[x].clone();
                        let ho = 1 + (a[1] % 3) as usize;
                        let wo = 1 + (a[1] as usize >> 2) % 3;
                        let grid = self.const_f32(&[xv.shape[0], ho, wo, 2], |n| nice_f32(seed, n) * 0.25);
                        self.node("GridSample", &[x, grid], vec![("align_corners", Attr::Int((a[2] & 1) as i64))], vec![(DType::F32, vec![xv.shape[0], xv.shape[1], ho, wo], xv.mag)]);
                    }
                    5 => {
                        let x = self.some_float(s0);
                        let xv = self.vals[x].clone();
                        let r = xv.shape.len();
                        if xv.numel() == 0 {
                            return false;
                        }
                        let ab = self.node("Abs", &[x], vec![], vec![(DType::F32, xv.shape.clone(), xv.mag)])[0];
                        let one = self.const_f32(&[], |_| 1.0);
                        let pos = self.node("Add", &[ab, one], vec![], vec![(DType::F32, xv.shape.clone(), xv.mag + 1.0)])[0];
                        let keep = (a[1] & 1) as i64;
                        if r == 0 || a[2] % 3 == 0 {
                            let shape = if keep == 1 { vec![1; r] } else { vec![] };
                            self.node("ReduceLogSum", &[pos], vec![("keepdims", Attr::Int(keep))], vec![(DType::F32, shape, xv.mag + 10.0)]);
                        } else {
                            let axis = idx(a[2], r);
                            let axc = self.const_i64_vec(&[axis as i64]);
                            let mut shape = xv.shape.clone();
                            if keep == 1 {
                                shape[axis] = 1;
                            } else {
                                shape.remove(axis);
                            }
                            self.node("ReduceLogSum", &[pos, axc], vec![("keepdims", Attr::Int(keep))], vec![(DType::F32, shape, xv.mag + 10.0)]);
                        }
                    }
                    6 => {
                        // integer / u8 data through Clip, Relu-free unary int ops, Where with ints
                        let Some(x) = self.pick_val(s0, |v| Self::is_i(v) && v.mag < 1e4) else { return false };
                        let xv = self.vals[x].clone();
                        let cond = self.const_typed(DType::Bool, &xv.shape, a[3] as u32);
                        let y = self.const_typed(xv.dtype, &[], a[2] as u32);
                        self.node("Where", &[cond, x, y], vec![], vec![(xv.dtype, xv.shape, xv.mag.max(4.0))]);
                    }
                    8 => {
                        let x = self.some_float(s0);
                        let xv = self.vals[x].clone();
                        let r = xv.shape.len();
                        let t = self.node("Tanh", &[x], vec![], vec![(DType::F32, xv.shape.clone(), 1.0)])[0];
                        let keep = (a[1] & 1) as i64;
                        if r == 0 || a[2] % 3 == 0 {
                            let shape = if keep == 1 { vec![1; r] } else { vec![] };
                            self.node("ReduceProd", &[t], vec![("keepdims", Attr::Int(keep))], vec![(DType::F32, shape, 1.0)]);
                        } else {
                            let axis = idx(a[2], r);
                            let axc = self.const_i64_vec(&[axis as i64 - if a[1] & 2 == 0 { 0 } else { r as i64 }]);
                            let mut shape = xv.shape.clone();
                            if keep == 1 {
                                shape[axis] = 1;
                            } else {
                                shape.remove(axis);
                            }
                            self.node("ReduceProd", &[t, axc], vec![("keepdims", Attr::Int(keep))], vec![(DType::F32, shape, 1.0)]);
                        }
                    }
                    9 => {
                        // pooling with padding / strides / ceil_mode
                        let x = self.float_like(s0, |v| v.shape.len() == 4 && v.numel() > 0, &[1, 2, 3, 4], a[3] as u32);
                        let xv = self.vals[x].clone();
                        let (h, w) = (xv.shape[2], xv.shape[3]);
                        let kh = 1 + idx(a[1], h.min(3));
                        let kw = 1 + idx(a[1] >> 4, w.min(3));
                        let pad = ((a[2] % 2) as usize).min(kh - 1).min(kw - 1);
                        let stride = 1 + ((a[2] >> 1) % 2) as usize;
                        let oh = (h + 2 * pad - kh) / stride + 1;
                        let ow = (w + 2 * pad - kw) / stride + 1;
                        let max = a[2] & 8 == 0;
                        let mut attrs = vec![
                            ("kernel_shape", Attr::Ints(vec![kh as i64, kw as i64])),
                            ("strides", Attr::Ints(vec![stride as i64, stride as i64])),
                            ("pads", Attr::Ints(vec![pad as i64; 4])),
                        ];
                        if !max && a[2] & 16 != 0 {
                            attrs.push(("count_include_pad", Attr::Int(1)));
                        }
                        self.node(if max { "MaxPool" } else { "AveragePool" }, &[x], attrs, vec![(DType::F32, vec![xv.shape[0], xv.shape[1], oh, ow], xv.mag)]);
                    }
                    10 => {
                        let x = self.float_like(s0, |v| v.shape.len() == 4 && v.numel() > 0 && v.mag <= 100.0, &[1, 2, 3, 3], a[3] as u32);
                        let xv = self.vals[x].clone();
                        match a[1] % 3 {
                            0 => {
                                self.node("GlobalAveragePool", &[x], vec![], vec![(DType::F32, vec![xv.shape[0], xv.shape[1], 1, 1], xv.mag)]);
                            }
                            1 => {
                                self.node("GlobalMaxPool", &[x], vec![], vec![(DType::F32, vec![xv.shape[0], xv.shape[1], 1, 1], xv.mag)]);
                            }
                            _ => {
                                let (c, h, w) = (xv.shape[1], xv.shape[2], xv.shape[3]);
                                let kh = 1 + idx(a[2], h.min(3));
                                let kw = 1 + idx(a[2] >> 4, w.min(3));
                                let depthwise = a[2] & 0x100 != 0;
                                let (m, group) = if depthwise { (c, c) } else { (1 + (a[2] as usize >> 9) % 3, 1) };
                                let wt = self.const_f32(&[m, c / group, kh, kw], |n| nice_f32(seed, n) * 0.25);
                                let mut ins = vec![x, wt];
                                if a[2] & 0x800 == 0 {
                                    ins.push(self.const_f32(&[m], |n| nice_f32(seed ^ 9, n)));
                                }
                                let dil = 1 + ((a[2] >> 12) % 2) as usize;
                                let ekh = (kh - 1) * dil + 1;
                                let ekw = (kw - 1) * dil + 1;
                                if ekh > h || ekw > w {
                                    return false;
                                }
                                let mag = xv.mag * (c * kh * kw) as f64 + 4.0;
                                self.node(
                                    "Conv",
                                    &ins,
                                    vec![
                                        ("group", Attr::Int(group as i64)),
                                        ("kernel_shape", Attr::Ints(vec![kh as i64, kw as i64])),
                                        ("dilations", Attr::Ints(vec![dil as i64, dil as i64])),
                                    ],
                                    vec![(DType::F32, vec![xv.shape[0], m, h - ekh + 1, w - ekw + 1], mag)],
                                );
                            }
                        }
                    }
                    11 => {
                        let b = 1 + (a[1] % 2) as usize;
                        let n = 1 + (a[1] as usize >> 2) % 6;
                        let complex = a[2] & 1 == 1;
                        let inverse = complex && a[2] & 2 != 0;
                        let onesided = !complex && a[2] & 4 != 0;
                        let x = self.const_f32(&[b, n, if complex { 2 } else { 1 }], |i| nice_f32(seed, i));
                        let n_out = if onesided { n / 2 + 1 } else { n };
                        self.node(
                            "DFT",
                            &[x],
                            vec![("inverse", Attr::Int(inverse as i64)), ("onesided", Attr::Int(onesided as i64))],
                            vec![(DType::F32, vec![b, n_out, 2], 4.0 * n as f64)],
                        );
                    }
                    12 => {
                        let b = 1 + (a[1] % 2) as usize;
                        let flen = 1 + (a[1] as usize >> 2) % 4;
                        let step = 1 + (a[1] as usize >> 5) % 2;
                        let frames = 1 + (a[1] as usize >> 7) % 3;
                        let len = flen + (frames - 1) * step;
                        let onesided = a[2] & 1 == 0;
                        let x = self.const_f32(&[b, len, 1], |i| nice_f32(seed, i));
                        let st = self.const_i64(&[], vec![step as i64]);
                        let win = self.const_f32(&[flen], |i| 0.5 + (hash32(seed ^ 5, i) % 3) as f32 * 0.25);
                        let names = vec![self.vals[x].name.clone(), self.vals[st].name.clone(), self.vals[win].name.clone()];
                        let bins = if onesided { flen / 2 + 1 } else { flen };
                        self.node_named("STFT", names, vec![("onesided", Attr::Int(onesided as i64))], vec![(DType::F32, vec![b, frames, bins, 2], 4.0 * flen as f64)], false);
                    }
                    13 => {
                        // MatMul / Gemm on rank-2 data with constants when nothing fits
                        let x = self.float_like(s0, |v| v.shape.len() == 2 && v.mag <= 100.0, &[2, 3], a[3] as u32);
                        let xv = self.vals[x].clone();
                        let (m, k) = (xv.shape[0], xv.shape[1]);
                        let n = 1 + (a[1] % 4) as usize;
                        let mag = xv.mag * k.max(1) as f64 * 2.0 + 8.0;
                        if a[2] & 1 == 0 {
                            // batched rhs: [b, k, n]
                            let bshape = if a[2] & 2 == 0 { vec![k, n] } else { vec![1 + (a[2] as usize >> 2) % 2, k, n] };
                            let w = self.const_f32(&bshape, |i| nice_f32(seed, i) * 0.25);
                            let mut shape = bshape[..bshape.len() - 2].to_vec();
                            shape.extend([m, n]);
                            self.node("MatMul", &[x, w], vec![], vec![(DType::F32, shape, mag)]);
                        } else {
                            let tb = (a[2] >> 1) & 1;
                            let w = self.const_f32(&if tb == 1 { vec![n, k] } else { vec![k, n] }, |i| nice_f32(seed, i) * 0.25);
                            let c = self.const_f32(&[n], |i| nice_f32(seed ^ 5, i));
                            self.node("Gemm", &[x, w, c], vec![("transB", Attr::Int(tb as i64))], vec![(DType::F32, vec![m, n], mag)]);
                        }
                    }
                    14 => {
                        // NonMaxSuppression: one class, pairwise disjoint boxes, no thresholds -> every box is selected
                        let b = 1 + (a[1] % 2) as usize;
                        let n = 1 + (a[1] as usize >> 2) % 4;
                        let center = a[2] & 1 == 1;
                        let boxes = self.const_f32(&[b, n, 4], |i| {
                            let k = (i / 4) as f32 * 3.0;
                            if center {
                                [k + 0.5, k + 0.5, 1.0, 1.0][(i % 4) as usize]
                            } else {
                                [k, k, k + 1.0, k + 1.0][(i % 4) as usize]
                            }
                        });
                        let scores = self.const_f32(&[b, 1, n], |i| 0.25 + (hash32(seed, i) % 8) as f32 * 0.25);
                        let mut names = vec![self.vals[boxes].name.clone(), self.vals[scores].name.clone()];
                        // rten suppresses a box when IoU >= iou_threshold (default 0), i.e. even disjoint boxes
                        // without an explicit threshold, so the threshold input is always given
                        let k = self.const_i64(&[], vec![(b * n) as i64 + (a[2] as i64 >> 2) % 3]);
                        names.push(self.vals[k].name.clone());
                        let iou = self.const_f32(&[], |_| 0.5);
                        names.push(self.vals[iou].name.clone());
                        let attrs = if center { vec![("center_point_box", Attr::Int(1))] } else { vec![] };
                        self.node_named("NonMaxSuppression", names, attrs, vec![(DType::I64, vec![b * n, 3], n as f64)], false);
                    }
                    15 => {
                        // com.microsoft MatMulNBits: 4-bit block-quantized rhs [N, K/block, block/2]
                        let block = 16usize << (a[1] % 2);
                        let kb = 1 + (a[1] as usize >> 1) % 2;
                        let k = block * kb;
                        let n = 1 + (a[1] as usize >> 3) % 4;
                        let m = 1 + (a[2] % 3) as usize;
                        let lhs_shape = if a[2] & 4 == 0 { vec![m, k] } else { vec![2, m, k] };
                        let lhs = self.const_f32(&lhs_shape, |i| nice_f32(seed, i) * 0.25);
                        let rhs = self.const_small(DType::U8, &[n, kb, block / 2], |i| (hash32(seed ^ 21, i) % 256) as i64);
                        let scales = self.const_f32(&[n, kb], |i| [0.125f32, 0.25, 0.0625, 0.5][(hash32(seed ^ 22, i) % 4) as usize]);
                        let mut out_shape = lhs_shape[..lhs_shape.len() - 1].to_vec();
                        out_shape.push(n);
                        let mut attrs = vec![("K", Attr::Int(k as i64)), ("N", Attr::Int(n as i64)), ("bits", Attr::Int(4)), ("block_size", Attr::Int(block as i64))];
                        if a[2] & 8 != 0 {
                            attrs.push(("accuracy_level", Attr::Int(4)));
                        }
                        self.node("MatMulNBits", &[lhs, rhs, scales], attrs, vec![(DType::F32, out_shape, k as f64 * 16.0)]);
                        self.set_domain(MS);
                    }
                    _ => {
                        // Multinomial (seeded -> still declared non-deterministic by the op)
                        let b = 1 + (a[1] % 2) as usize;
                        let c = 2 + (a[1] as usize >> 2) % 3;
                        let x = self.const_f32(&[b, c], |n| nice_f32(seed, n) * 0.25);
                        let ss = 1 + (a[2] % 3) as usize;
                        let dt = if a[2] & 4 == 0 { DType::I32 } else { DType::I64 };
                        let name = self.vals[x].name.clone();
                        self.node_named(
                            "Multinomial",
                            vec![name],
                            vec![("sample_size", Attr::Int(ss as i64)), ("dtype", Attr::Int(dt.onnx_code())), ("seed", Attr::Float(1.0))],
                            vec![(dt, vec![b, ss], c as f64)],
                            true,
                        );
                    }
                }
                true
            }
            Rnn => {
                let seed = self.seed ^ a[3] as u32;
                let x = self.float_like(s0, |v| v.shape.len() == 3 && v.numel() > 0 && v.mag <= 8.0, &[2, 1, 3], a[3] as u32);
                let xv = self.vals[x].clone();
                let (seq, batch, input) = (xv.shape[0], xv.shape[1], xv.shape[2]);
                let hidden = 1 + (a[0] % 3) as usize;
                let dir = ["forward", "reverse", "bidirectional"][idx(a[1], 3)];
                let dirs = if dir == "bidirectional" { 2 } else { 1 };
                let lstm = a[2] & 1 == 1;
                let gates = if lstm { 4 } else { 3 };
                let w = self.const_f32(&[dirs, gates * hidden, input], |n| nice_f32(seed, n) * 0.125);
                let r = self.const_f32(&[dirs, gates * hidden, hidden], |n| nice_f32(seed ^ 1, n) * 0.125);
                let mut names = vec![xv.name.clone(), self.vals[w].name.clone(), self.vals[r].name.clone()];
                if a[2] & 2 == 0 {
                    let b = self.const_f32(&[dirs, 2 * gates * hidden], |n| nice_f32(seed ^ 2, n) * 0.125);
                    names.push(self.vals[b].name.clone());
                    if a[2] & 4 == 0 {
                        names.push(String::new()); // sequence_lens
                        let h0 = self.const_f32(&[dirs, batch, hidden], |n| nice_f32(seed ^ 3, n) * 0.125);
                        names.push(self.vals[h0].name.clone());
                        if lstm && a[2] & 8 == 0 {
                            let c0 = self.const_f32(&[dirs, batch, hidden], |n| nice_f32(seed ^ 4, n) * 0.125);
                            names.push(self.vals[c0].name.clone());
                        }
                    }
                }
                let mut attrs = vec![("hidden_size", Attr::Int(hidden as i64)), ("direction", Attr::Str(dir.into()))];
                if !lstm {
                    // rten only implements linear_before_reset=1
                    attrs.push(("linear_before_reset", Attr::Int(1)));
                }
                let mut outs = vec![(DType::F32, vec![seq, dirs, batch, hidden], 1.0), (DType::F32, vec![dirs, batch, hidden], 1.0)];
                if lstm {
                    outs.push((DType::F32, vec![dirs, batch, hidden], (seq + 1) as f64));
                }
                self.node_named(if lstm { "LSTM" } else { "GRU" }, names, attrs, outs, xv.random);
                self.maybe_drop_outputs(a[3]);
                true
            }
            Attn => {
                let seed = self.seed ^ a[3] as u32;
                let b = 1 + (a[1] % 2) as usize;
                let d = 2 * (1 + (a[1] as usize >> 2) % 2); // head size (even)
                let kvh = 1 + (a[1] as usize >> 4) % 2;
                let group = 1 + (a[1] as usize >> 6) % 2;
                let qh = kvh * group;
                let s = 1 + (a[2] % 3) as usize;
                let p = (a[2] as usize >> 2) % 3; // past length
                let g = |n: u32, salt: u32| nice_f32(seed ^ salt, n) * 0.25;
                match a[0] % 4 {
                    0 => {
                        // ONNX Attention, 4D inputs
                        let s2 = 1 + (a[2] as usize >> 4) % 3;
                        let dv = 1 + (a[2] as usize >> 6) % 3;
                        let q = self.float_like(s0, |v| v.shape == [b, qh, s, d] && v.mag <= 8.0, &[b, qh, s, d], 1);
                        let k = self.const_f32(&[b, kvh, s2, d], |n| g(n, 2));
                        let v = self.const_f32(&[b, kvh, s2, dv], |n| g(n, 3));
                        let mut names = vec![self.vals[q].name.clone(), self.vals[k].name.clone(), self.vals[v].name.clone()];
                        let with_past = a[3] & 1 == 0;
                        let total = s2 + if with_past { p } else { 0 };
                        if a[3] & 2 == 0 {
                            let mask = if a[3] & 4 == 0 { self.const_f32(&[s, total], |n| g(n, 4)) } else { self.const_typed(DType::Bool, &[s, total], 5) };
                            names.push(self.vals[mask].name.clone());
                        } else if with_past {
                            names.push(String::new());
                        }
                        let mut n_out = 1;
                        if with_past {
                            let pk = self.const_f32(&[b, kvh, p, d], |n| g(n, 6));
                            let pv = self.const_f32(&[b, kvh, p, dv], |n| g(n, 7));
                            names.push(self.vals[pk].name.clone());
                            names.push(self.vals[pv].name.clone());
                            n_out = 3;
                        }
                        let mut attrs = vec![];
                        if a[3] & 8 != 0 {
                            attrs.push(("is_causal", Attr::Int(1)));
                        }
                        let mut outs = vec![(DType::F32, vec![b, qh, s, dv], 4.0)];
                        if n_out == 3 {
                            outs.push((DType::F32, vec![b, kvh, total, d], 4.0));
                            outs.push((DType::F32, vec![b, kvh, total, dv], 4.0));
                        }
                        self.node_named("Attention", names, attrs, outs, false);
                        self.maybe_drop_outputs(a[3] >> 4);
                    }
                    1 => {
                        // com.microsoft MultiHeadAttention with past key/value
                        let nh = qh;
                        let hid = nh * d;
                        let q = self.float_like(s0, |v| v.shape == [b, s, hid] && v.mag <= 8.0, &[b, s, hid], 1);
                        let k = self.const_f32(&[b, s, hid], |n| g(n, 2));
                        let v = self.const_f32(&[b, s, hid], |n| g(n, 3));
                        let mut names = vec![self.vals[q].name.clone(), self.vals[k].name.clone(), self.vals[v].name.clone()];
                        let with_past = a[3] & 1 == 0;
                        let mut outs = vec![(DType::F32, vec![b, s, hid], 4.0)];
                        if with_past {
                            names.extend([String::new(), String::new(), String::new()]);
                            let pk = self.const_f32(&[b, nh, p, d], |n| g(n, 6));
                            let pv = self.const_f32(&[b, nh, p, d], |n| g(n, 7));
                            names.push(self.vals[pk].name.clone());
                            names.push(self.vals[pv].name.clone());
                            outs.push((DType::F32, vec![b, nh, p + s, d], 4.0));
                            outs.push((DType::F32, vec![b, nh, p + s, d], 4.0));
                        }
                        self.node_named("MultiHeadAttention", names, vec![("num_heads", Attr::Int(nh as i64))], outs, false);
                        self.set_domain(MS);
                        self.maybe_drop_outputs(a[3] >> 4);
                    }
                    2 => {
                        // com.microsoft GroupQueryAttention: decode step (seq 1 with past) or first prompt
                        let decode = a[3] & 1 == 0 && p > 0;
                        let (sq, past) = if decode { (1, p) } else { (s, 0) };
                        let q = self.float_like(s0, |v| v.shape == [b, sq, qh * d] && v.mag <= 8.0, &[b, sq, qh * d], 1);
                        let k = self.const_f32(&[b, sq, kvh * d], |n| g(n, 2));
                        let v = self.const_f32(&[b, sq, kvh * d], |n| g(n, 3));
                        let total = past + sq;
                        let pk = self.const_f32(&[b, kvh, past, d], |n| g(n, 6));
                        let pv = self.const_f32(&[b, kvh, past, d], |n| g(n, 7));
                        let lens = self.const_lit("k", TensorLit::i32(&[b as i64], vec![total as i64 - 1; b]), total as f64);
                        let tot = self.const_lit("k", TensorLit::i32(&[], vec![total as i64]), total as f64);
                        let names: Vec<String> = [q, k, v, pk, pv, lens, tot].iter().map(|i| self.vals[*i].name.clone()).collect();
                        let outs = vec![(DType::F32, vec![b, sq, qh * d], 4.0), (DType::F32, vec![b, kvh, total, d], 4.0), (DType::F32, vec![b, kvh, total, d], 4.0)];
                        self.node_named("GroupQueryAttention", names, vec![("num_heads", Attr::Int(qh as i64)), ("kv_num_heads", Attr::Int(kvh as i64))], outs, false);
                        self.set_domain(MS);
                        self.maybe_drop_outputs(a[3] >> 4);
                    }
                    _ => {
                        // RotaryEmbedding (ONNX): x [b, heads, s, d], caches [maxpos, d/2], position ids [b, s]
                        let x = self.float_like(s0, |v| v.shape == [b, qh, s, d] && v.mag <= 8.0, &[b, qh, s, d], 1);
                        let maxpos = s + 2;
                        let cos = self.const_f32(&[maxpos, d / 2], |n| g(n, 8));
                        let sin = self.const_f32(&[maxpos, d / 2], |n| g(n, 9));
                        let pos = self.const_i64(&[b, s], (0..(b * s) as u32).map(|i| (hash32(seed, i) as usize % maxpos) as i64).collect());
                        let attrs = if a[3] & 1 == 0 { vec![] } else { vec![("interleaved", Attr::Int(1))] };
                        let xv = self.vals[x].clone();
                        let ms = a[3] & 2 != 0;
                        if ms {
                            // contrib variant: (input, position_ids, cos, sin)
                            self.node("RotaryEmbedding", &[x, pos, cos, sin], attrs, vec![(DType::F32, xv.shape, xv.mag * 2.0)]);
                            self.set_domain(MS);
                        } else {
                            self.node("RotaryEmbedding", &[x, cos, sin, pos], attrs, vec![(DType::F32, xv.shape, xv.mag * 2.0)]);
                        }
                    }
                }
                true
            }
            LayoutAny => {
                // data-movement ops on u8/i8/int/bool data (the base families mostly pick floats)
                let dt = [DType::U8, DType::I8, DType::I32, DType::Bool, DType::I64, DType::F32][idx(a[0], 6)];
                // half of the time a fresh constant of rank 1..=6 (ranks > 4 reach the recursive copy paths)
                let existing = if a[0] & 1 == 0 { self.pick_val(s0, |v| v.dtype == dt && !v.shape.is_empty() && v.numel() > 0) } else { None };
                let x = match existing {
                    Some(x) => x,
                    None => {
                        let rank = 1 + (a[3] % 6) as usize;
                        let sh = self.small_shape(a[3], rank, 1, if rank > 4 { 3 } else { 4 });
                        match dt {
                            DType::U8 | DType::I8 => {
                                let seed = self.seed ^ a[3] as u32;
                                self.const_small(dt, &sh, move |i| if dt == DType::U8 { (hash32(seed, i) % 200) as i64 } else { (hash32(seed, i) % 200) as i64 - 100 })
                            }
                            _ => self.const_typed(dt, &sh, a[3] as u32),
                        }
                    }
                };
                let xv = self.vals[x].clone();
                let r = xv.shape.len();
                match a[1] % 8 {
                    0 => {
                        let mut perm: Vec<usize> = (0..r).collect();
                        perm.reverse();
                        let shape: Vec<usize> = perm.iter().map(|p| xv.shape[*p]).collect();
                        self.node("Transpose", &[x], vec![("perm", Attr::Ints(perm.iter().map(|p| *p as i64).collect()))], vec![(xv.dtype, shape, xv.mag)]);
                    }
                    1 => {
                        let axis = idx(a[2], r);
                        let mut shape = xv.shape.clone();
                        shape[axis] *= 2;
                        self.node("Concat", &[x, x], vec![("axis", Attr::Int(axis as i64))], vec![(xv.dtype, shape, xv.mag)]);
                    }
                    2 => {
                        let axis = idx(a[2], r);
                        let size = xv.shape[axis] as i64;
                        let start = (a[3] as i64) % size;
                        let st = self.const_i64_vec(&[start]);
                        let en = self.const_i64_vec(&[size]);
                        let ax = self.const_i64_vec(&[axis as i64]);
                        let mut shape = xv.shape.clone();
                        shape[axis] = (size - start) as usize;
                        self.node("Slice", &[x, st, en, ax], vec![], vec![(xv.dtype, shape, xv.mag)]);
                    }
                    3 => {
                        let n = xv.numel();
                        let sh = self.const_i64_vec(&[-1]);
                        self.node("Reshape", &[x, sh], vec![], vec![(xv.dtype, vec![n], xv.mag)]);
                    }
                    4 => {
                        let axis = idx(a[2], r);
                        let size = xv.shape[axis] as i64;
                        let ind = self.const_i64(&[2], vec![(a[3] as i64) % size, -1]);
                        let mut shape = xv.shape[..axis].to_vec();
                        shape.push(2);
                        shape.extend_from_slice(&xv.shape[axis + 1..]);
                        self.node("Gather", &[x, ind], vec![("axis", Attr::Int(axis as i64))], vec![(xv.dtype, shape, xv.mag)]);
                    }
                    5 => {
                        let mut target = xv.shape.clone();
                        target.insert(0, 2);
                        let sh = self.const_i64_vec(&target.iter().map(|d| *d as i64).collect::<Vec<_>>());
                        self.node("Expand", &[x, sh], vec![], vec![(xv.dtype, target, xv.mag)]);
                    }
                    6 => {
                        let reps: Vec<i64> = (0..r).map(|d| 1 + ((a[2] >> d) & 1) as i64).collect();
                        let shape: Vec<usize> = xv.shape.iter().zip(&reps).map(|(s, k)| s * *k as usize).collect();
                        let rp = self.const_i64_vec(&reps);
                        self.node("Tile", &[x, rp], vec![], vec![(xv.dtype, shape, xv.mag)]);
                    }
                    _ => {
                        self.node("Identity", &[x], vec![], vec![(xv.dtype, xv.shape, xv.mag)]);
                    }
                }
                true
            }
            _ => false,
        }
    }
}

//! Serialisable description of an ONNX model and its protobuf encoding.
//! Field numbers follow /repo/rten-onnx/src/onnx.rs (DESIGN.md Appendix A).

use crate::pb::Pb;
use serde::{Deserialize, Serialize};

#[derive(Clone, Copy, Debug, PartialEq, Eq, Hash, Serialize, Deserialize)]
pub enum DType {
    F32,
    U8,
    I8,
    I32,
    I64,
    Bool,
    F64,
}

impl DType {
    pub fn onnx_code(self) -> i64 {
        match self {
            DType::F32 => 1,
            DType::U8 => 2,
            DType::I8 => 3,
            DType::I32 => 6,
            DType::I64 => 7,
            DType::Bool => 9,
            DType::F64 => 11,
        }
    }
    /// The element type rten uses at run time for this ONNX type.
    pub fn runtime(self) -> DType {
        match self {
            DType::I64 | DType::Bool => DType::I32,
            DType::F64 => DType::F32,
            d => d,
        }
    }
    pub fn is_float(self) -> bool {
        matches!(self, DType::F32 | DType::F64)
    }
    pub fn is_intlike(self) -> bool {
        matches!(self, DType::I32 | DType::I64)
    }
}

/// Tensor literal. Values are stored widened; `dtype` decides the encoding.
#[derive(Clone, Debug, PartialEq, Serialize, Deserialize)]
pub struct TensorLit {
    pub dtype: DType,
    pub dims: Vec<i64>,
    /// float payload (F32/F64)
    #[serde(default, skip_serializing_if = "Vec::is_empty")]
    pub f: Vec<f32>,
    /// integer payload (everything else)
    #[serde(default, skip_serializing_if = "Vec::is_empty")]
    pub i: Vec<i64>,
    /// encode through raw_data (true) or the typed repeated field (false)
    #[serde(default)]
    pub raw: bool,
}

impl TensorLit {
    pub fn f32(dims: &[i64], data: Vec<f32>) -> TensorLit {
        TensorLit { dtype: DType::F32, dims: dims.to_vec(), f: data, i: vec![], raw: true }
    }
    pub fn i64(dims: &[i64], data: Vec<i64>) -> TensorLit {
        TensorLit { dtype: DType::I64, dims: dims.to_vec(), f: vec![], i: data, raw: true }
    }
    pub fn i32(dims: &[i64], data: Vec<i64>) -> TensorLit {
        TensorLit { dtype: DType::I32, dims: dims.to_vec(), f: vec![], i: data, raw: true }
    }
    pub fn scalar_f32(v: f32) -> TensorLit {
        TensorLit::f32(&[], vec![v])
    }
    pub fn scalar_i64(v: i64) -> TensorLit {
        TensorLit::i64(&[], vec![v])
    }
    pub fn vec_i64(v: &[i64]) -> TensorLit {
        TensorLit::i64(&[v.len() as i64], v.to_vec())
    }
    pub fn numel(&self) -> usize {
        self.dims.iter().map(|d| *d as usize).product()
    }
    pub fn encode(&self, name: Option<&str>) -> Pb {
        let mut t = Pb::new();
        // onnx.proto is proto2: `dims`, attribute `ints`/`floats` are unpacked
        for d in &self.dims {
            t.int(1, *d);
        }
        t.int(2, self.dtype.onnx_code());
        if let Some(n) = name {
            t.string(8, n);
        }
        if self.raw {
            let mut raw = Vec::new();
            match self.dtype {
                DType::F32 => self.f.iter().for_each(|v| raw.extend_from_slice(&v.to_le_bytes())),
                DType::F64 => self.f.iter().for_each(|v| raw.extend_from_slice(&(*v as f64).to_le_bytes())),
                DType::I64 => self.i.iter().for_each(|v| raw.extend_from_slice(&v.to_le_bytes())),
                DType::I32 => self.i.iter().for_each(|v| raw.extend_from_slice(&(*v as i32).to_le_bytes())),
                DType::U8 | DType::Bool => self.i.iter().for_each(|v| raw.push(*v as u8)),
                DType::I8 => self.i.iter().for_each(|v| raw.push(*v as i8 as u8)),
            }
            t.bytes(9, &raw);
        } else {
            match self.dtype {
                DType::F32 => t.packed_floats(4, &self.f),
                DType::F64 => t.packed_doubles(10, &self.f.iter().map(|v| *v as f64).collect::<Vec<_>>()),
                DType::I64 => t.packed_ints(7, &self.i),
                // int32_data holds i32, i8, u8, bool
                _ => t.packed_ints(5, &self.i),
            }
        }
        t
    }
}

#[derive(Clone, Debug, PartialEq, Serialize, Deserialize)]
pub enum Attr {
    Int(i64),
    Float(f32),
    Str(String),
    Ints(Vec<i64>),
    Floats(Vec<f32>),
    Tensor(TensorLit),
    Graph(Box<GraphDef>),
}

#[derive(Clone, Debug, PartialEq, Serialize, Deserialize)]
pub struct NodeDef {
    pub op: String,
    #[serde(default, skip_serializing_if = "String::is_empty")]
    pub domain: String,
    pub name: String,
    /// empty string = omitted optional input
    pub inputs: Vec<String>,
    pub outputs: Vec<String>,
    #[serde(default, skip_serializing_if = "Vec::is_empty")]
    pub attrs: Vec<(String, Attr)>,
}

impl NodeDef {
    pub fn new(op: &str, name: &str, inputs: &[&str], outputs: &[&str]) -> NodeDef {
        NodeDef {
            op: op.to_string(),
            domain: String::new(),
            name: name.to_string(),
            inputs: inputs.iter().map(|s| s.to_string()).collect(),
            outputs: outputs.iter().map(|s| s.to_string()).collect(),
            attrs: vec![],
        }
    }
    pub fn attr(mut self, k: &str, v: Attr) -> NodeDef {
        self.attrs.push((k.to_string(), v));
        self
    }
    fn encode(&self) -> Pb {
        let mut n = Pb::new();
        for i in &self.inputs {
            n.string(1, i);
        }
        for o in &self.outputs {
            n.string(2, o);
        }
        n.string(3, &self.name);
        n.string(4, &self.op);
        for (k, v) in &self.attrs {
            let mut a = Pb::new();
            a.string(1, k);
            match v {
                Attr::Float(f) => {
                    a.float(2, *f);
                    a.int(20, 1);
                }
                Attr::Int(i) => {
                    a.int(3, *i);
                    a.int(20, 2);
                }
                Attr::Str(s) => {
                    a.bytes(4, s.as_bytes());
                    a.int(20, 3);
                }
                Attr::Tensor(t) => {
                    a.msg(5, &t.encode(None));
                    a.int(20, 4);
                }
                Attr::Graph(g) => {
                    a.msg(6, &g.encode());
                    a.int(20, 5);
                }
                Attr::Floats(fs) => {
                    for f in fs {
                        a.float(7, *f);
                    }
                    a.int(20, 6);
                }
                Attr::Ints(is) => {
                    for i in is {
                        a.int(8, *i);
                    }
                    a.int(20, 7);
                }
            }
            n.msg(5, &a);
        }
        if !self.domain.is_empty() {
            n.string(7, &self.domain);
        }
        n
    }
}

#[derive(Clone, Debug, PartialEq, Serialize, Deserialize)]
pub enum Dim {
    Fixed(i64),
    Sym(String),
}

#[derive(Clone, Debug, PartialEq, Serialize, Deserialize)]
pub struct ValueInfo {
    pub name: String,
    pub dtype: Option<DType>,
    pub shape: Option<Vec<Dim>>,
}

impl ValueInfo {
    pub fn new(name: &str, dtype: DType, shape: Vec<Dim>) -> ValueInfo {
        ValueInfo { name: name.to_string(), dtype: Some(dtype), shape: Some(shape) }
    }
    pub fn untyped(name: &str) -> ValueInfo {
        ValueInfo { name: name.to_string(), dtype: None, shape: None }
    }
    fn encode(&self) -> Pb {
        let mut v = Pb::new();
        v.string(1, &self.name);
        if self.dtype.is_some() || self.shape.is_some() {
            let mut tt = Pb::new();
            if let Some(d) = self.dtype {
                tt.int(1, d.onnx_code());
            }
            if let Some(shape) = &self.shape {
                let mut sh = Pb::new();
                for d in shape {
                    let mut dim = Pb::new();
                    match d {
                        Dim::Fixed(v) => dim.int(1, *v),
                        Dim::Sym(s) => dim.string(2, s),
                    }
                    sh.msg(1, &dim);
                }
                tt.msg(2, &sh);
            }
            let mut ty = Pb::new();
            ty.msg(1, &tt);
            v.msg(2, &ty);
        }
        v
    }
}

#[derive(Clone, Debug, Default, PartialEq, Serialize, Deserialize)]
pub struct GraphDef {
    pub nodes: Vec<NodeDef>,
    pub initializers: Vec<(String, TensorLit)>,
    pub inputs: Vec<ValueInfo>,
    pub outputs: Vec<ValueInfo>,
    #[serde(default, skip_serializing_if = "Vec::is_empty")]
    pub value_info: Vec<ValueInfo>,
}

impl GraphDef {
    pub fn encode(&self) -> Pb {
        let mut g = Pb::new();
        for n in &self.nodes {
            g.msg(1, &n.encode());
        }
        g.string(2, "g");
        for (name, t) in &self.initializers {
            g.msg(5, &t.encode(Some(name)));
        }
        for i in &self.inputs {
            g.msg(11, &i.encode());
        }
        for o in &self.outputs {
            g.msg(12, &o.encode());
        }
        for v in &self.value_info {
            g.msg(13, &v.encode());
        }
        g
    }
}

#[derive(Clone, Debug, PartialEq, Serialize, Deserialize)]
pub struct ModelDef {
    pub graph: GraphDef,
    pub opset: i64,
}

impl ModelDef {
    pub fn new(graph: GraphDef) -> ModelDef {
        ModelDef { graph, opset: 20 }
    }
    pub fn encode(&self) -> Vec<u8> {
        let mut m = Pb::new();
        m.int(1, 9); // ir_version
        m.string(2, "vc-onnxgen");
        m.msg(7, &self.graph.encode());
        let mut os = Pb::new();
        os.string(1, "");
        os.int(2, self.opset);
        m.msg(8, &os);
        let mut ms = Pb::new();
        ms.string(1, "com.microsoft");
        ms.int(2, 1);
        m.msg(8, &ms);
        m.buf
    }
}

pub mod exec;
pub mod grammar;
pub mod model;
pub mod naive;
pub mod pb;

pub use exec::{compare, node_id, op_diff, op_multiset, run_named, Config, TVal, Tol};
pub use model::{Attr, DType, Dim, GraphDef, ModelDef, NodeDef, TensorLit, ValueInfo};

//! Minimal protobuf wire-format writer.

#[derive(Default, Clone)]
pub struct Pb {
    pub buf: Vec<u8>,
}

impl Pb {
    pub fn new() -> Pb {
        Pb { buf: Vec::new() }
    }
    pub fn varint(&mut self, mut v: u64) {
        loop {
            let b = (v & 0x7f) as u8;
            v >>= 7;
            if v == 0 {
                self.buf.push(b);
                break;
            }
            self.buf.push(b | 0x80);
        }
    }
    fn tag(&mut self, field: u32, wire: u8) {
        self.varint(((field as u64) << 3) | wire as u64);
    }
    /// varint field (int32/int64/enum/bool); negative values are 10-byte two's complement
    pub fn int(&mut self, field: u32, v: i64) {
        self.tag(field, 0);
        self.varint(v as u64);
    }
    pub fn bytes(&mut self, field: u32, b: &[u8]) {
        self.tag(field, 2);
        self.varint(b.len() as u64);
        self.buf.extend_from_slice(b);
    }
    pub fn string(&mut self, field: u32, s: &str) {
        self.bytes(field, s.as_bytes());
    }
    pub fn msg(&mut self, field: u32, m: &Pb) {
        self.bytes(field, &m.buf);
    }
    pub fn fixed32(&mut self, field: u32, v: u32) {
        self.tag(field, 5);
        self.buf.extend_from_slice(&v.to_le_bytes());
    }
    pub fn float(&mut self, field: u32, v: f32) {
        self.fixed32(field, v.to_bits());
    }
    /// packed repeated varints
    pub fn packed_ints(&mut self, field: u32, vs: &[i64]) {
        let mut inner = Pb::new();
        for v in vs {
            inner.varint(*v as u64);
        }
        self.bytes(field, &inner.buf);
    }
    pub fn packed_floats(&mut self, field: u32, vs: &[f32]) {
        let mut inner = Vec::with_capacity(vs.len() * 4);
        for v in vs {
            inner.extend_from_slice(&v.to_le_bytes());
        }
        self.bytes(field, &inner);
    }
    pub fn packed_doubles(&mut self, field: u32, vs: &[f64]) {
        let mut inner = Vec::with_capacity(vs.len() * 8);
        for v in vs {
            inner.extend_from_slice(&v.to_le_bytes());
        }
        self.bytes(field, &inner);
    }
}

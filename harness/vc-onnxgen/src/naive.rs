//! Strategy-free evaluator: runs every needed operator of a loaded model with
//! `Operator::run` on borrowed views of stored values (never in place), with a
//! fresh `BufferPool` per operator, in a topological order chosen by the
//! caller. Independent of the executor's planning, in-place selection,
//! reference counting and buffer recycling.

use crate::exec::{node_id, TVal};
use rten::verif::graph::Node;
use rten::verif::operator::{InputList, OpRunContext};
use rten::{BufferPool, Model, NodeId, Value, ValueView};
use std::collections::{BTreeMap, BTreeSet};

pub struct NaiveStats {
    pub ops_run: usize,
    /// ops that declare in-place capability and have a non-constant,
    /// single-consumer candidate input
    pub inplace_candidates: usize,
    pub commutative_ops: usize,
    pub multi_consumer_values: usize,
}

pub fn naive_eval(
    model: &Model,
    inputs: &[(String, TVal)],
    outputs: &[String],
    order_sel: &[u16],
) -> Result<(Vec<TVal>, NaiveStats), String> {
    let g = model.verif_graph();
    let mut values: BTreeMap<NodeId, Value> = BTreeMap::new();
    for (name, v) in inputs {
        values.insert(node_id(model, name)?, v.to_value());
    }
    let out_ids: Vec<NodeId> = outputs.iter().map(|n| node_id(model, n)).collect::<Result<_, _>>()?;

    // needed ops = ancestors of requested outputs, stopping at supplied values
    let mut needed: BTreeSet<NodeId> = BTreeSet::new();
    let mut stack: Vec<NodeId> = out_ids.clone();
    let mut seen_vals: BTreeSet<NodeId> = BTreeSet::new();
    while let Some(v) = stack.pop() {
        if !seen_vals.insert(v) || values.contains_key(&v) {
            continue;
        }
        if let Some((op_id, op)) = g.get_source_node(v) {
            if needed.insert(op_id) {
                for i in op.input_ids().iter().flatten() {
                    stack.push(*i);
                }
            }
        }
    }
    let is_const = |id: NodeId| matches!(g.get_node(id), Some(Node::Constant(_)));
    let mut stats = NaiveStats { ops_run: 0, inplace_candidates: 0, commutative_ops: 0, multi_consumer_values: 0 };
    for op_id in &needed {
        let op = g.get_node(*op_id).and_then(|n| n.as_operator()).unwrap();
        let ip = op.operator().in_place_inputs();
        if op.operator().is_commutative() {
            stats.commutative_ops += 1;
        }
        for pos in ip.iter() {
            if let Some(Some(id)) = op.input_ids().get(pos as usize) {
                let consumers = g.get_consumers(*id).map(|c| c.len()).unwrap_or(0);
                if !is_const(*id) && consumers == 1 && !out_ids.contains(id) {
                    stats.inplace_candidates += 1;
                    break;
                }
            }
        }
    }
    for (id, _) in g.iter() {
        if g.get_consumers(id).map(|c| c.len()).unwrap_or(0) >= 2 && !is_const(id) {
            stats.multi_consumer_values += 1;
        }
    }

    let mut remaining: Vec<NodeId> = needed.iter().copied().collect();
    let mut step = 0usize;
    while !remaining.is_empty() {
        let ready: Vec<usize> = remaining
            .iter()
            .enumerate()
            .filter(|(_, op_id)| {
                let op = g.get_node(**op_id).and_then(|n| n.as_operator()).unwrap();
                op.input_ids().iter().flatten().all(|i| is_const(*i) || values.contains_key(i))
            })
            .map(|(k, _)| k)
            .collect();
        if ready.is_empty() {
            return Err("naive evaluator: no operator is ready (missing input or cycle)".into());
        }
        let sel = if order_sel.is_empty() { 0 } else { order_sel[step % order_sel.len()] };
        let k = ready[((sel as usize) * ready.len()) >> 16];
        let op_id = remaining.remove(k);
        step += 1;
        let op_node = g.get_node(op_id).and_then(|n| n.as_operator()).unwrap();
        if op_node.operator().as_subgraph_op().is_some() {
            return Err("naive evaluator: subgraph operators are not supported".into());
        }
        let views: Vec<Option<ValueView>> = op_node
            .input_ids()
            .iter()
            .map(|i| {
                i.map(|id| match g.get_node(id) {
                    Some(Node::Constant(c)) => c.as_view(),
                    _ => values[&id].as_view(),
                })
            })
            .collect();
        let pool = BufferPool::new();
        let input_list = InputList::from_optional(&views);
        let ctx = OpRunContext::new(&pool, &input_list, op_node.output_mask());
        let outs = op_node
            .operator()
            .run(&ctx)
            .map_err(|e| format!("naive evaluator: operator {} ({}) failed: {e}", op_node.name().unwrap_or("?"), op_node.operator().name()))?;
        drop(input_list);
        drop(views);
        stats.ops_run += 1;
        // outputs are positional (the executor zips output_ids with the
        // returned list); unused positions are skipped
        let n_outs = outs.len();
        for (oid, v) in op_node.output_ids().iter().zip(outs.into_iter()) {
            if let Some(oid) = oid {
                values.insert(*oid, v);
            }
        }
        if op_node.output_ids().iter().enumerate().any(|(k, o)| o.is_some() && k >= n_outs) {
            return Err(format!("naive evaluator: operator {} returned too few outputs", op_node.operator().name()));
        }
    }
    let mut res = Vec::new();
    for id in &out_ids {
        if let Some(v) = values.get(id) {
            res.push(TVal::from_value(v));
        } else if let Some(Node::Constant(c)) = g.get_node(*id) {
            res.push(TVal::from_value(&c.as_view().to_owned()));
        } else {
            return Err("naive evaluator: requested output was not computed".into());
        }
    }
    Ok((res, stats))
}

//! Typed random ONNX graph grammar.
//!
//! proptest generates a `RawGraph` — plain vectors of small integers that
//! shrink well. `build()` interprets those choices deterministically against
//! the evolving typed state (values with dtype, concrete shape and a magnitude
//! bound), so every produced model is valid by construction: each raw choice
//! is mapped monotonically onto the candidates that are legal at that point,
//! and an op that has no legal candidate degrades to a simpler one.
//!
//! Float values are kept finite and moderate (|x| bounded by a tracked
//! magnitude estimate; no division by generated values, no log/sqrt of
//! generated values) so that legitimate re-ordering of float arithmetic by
//! fused kernels cannot flip NaN/inf.

use crate::exec::TVal;
use crate::model::*;
use proptest::prelude::*;
use serde::{Deserialize, Serialize};

#[derive(Clone, Debug, PartialEq, Serialize, Deserialize)]
pub struct RawInput {
    pub dtype: u8,
    pub rank: u8,
    pub dims: [u8; 4],
    pub sym: u8,
}

#[derive(Clone, Debug, PartialEq, Serialize, Deserialize)]
pub struct RawNode {
    pub op: u16,
    pub ins: [u16; 3],
    pub a: [u16; 4],
}

#[derive(Clone, Debug, PartialEq, Serialize, Deserialize)]
pub struct RawGraph {
    pub inputs: Vec<RawInput>,
    pub nodes: Vec<RawNode>,
    /// selectors of extra graph outputs (the last produced value is always an output)
    pub outputs: Vec<u16>,
    pub data_seed: u16,
    /// bit 0: emit value_info for intermediates; bit 1: exact output shapes
    pub flags: u8,
}

pub fn raw_graph(max_inputs: usize, max_nodes: usize) -> impl Strategy<Value = RawGraph> {
    let input = (0u8..8, 0u8..5, any::<[u8; 4]>(), any::<u8>()).prop_map(|(dtype, rank, dims, sym)| RawInput {
        dtype,
        rank,
        dims,
        sym,
    });
    let node = (any::<u16>(), any::<[u16; 3]>(), any::<[u16; 4]>()).prop_map(|(op, ins, a)| RawNode { op, ins, a });
    (
        proptest::collection::vec(input, 1..=max_inputs),
        proptest::collection::vec(node, 0..=max_nodes),
        proptest::collection::vec(any::<u16>(), 0..3),
        any::<u16>(),
        any::<u8>(),
    )
        .prop_map(|(inputs, nodes, outputs, data_seed, flags)| RawGraph {
            inputs,
            nodes,
            outputs,
            data_seed,
            flags,
        })
}

#[derive(Clone, Copy, Debug, PartialEq, Eq, Hash, Serialize, Deserialize)]
pub enum Family {
    UnaryF,
    UnaryI,
    BinaryF,
    BinaryI,
    Compare,
    Logic,
    Where,
    Cast,
    Clip,
    Reduce,
    ArgReduce,
    Softmax,
    LayerNorm,
    MatMul,
    Gemm,
    Transpose,
    Reshape,
    Flatten,
    Squeeze,
    Unsqueeze,
    Concat,
    Slice,
    Split,
    Expand,
    Tile,
    Gather,
    Shape,
    ShapeArith,
    Pad,
    CumSum,
    Conv,
    Pool,
    Identity,
    Random,
    ConstantOfShape,
    // --- appended for the operator-level checks (vc-ops); only `Profile::all_ops()` selects these ---
    UnaryF2,
    IsNanInf,
    ModPow,
    Variadic,
    BinaryBcast,
    GatherEl,
    ScatterF,
    OneHot,
    TopK,
    NonZero,
    Trilu,
    Range,
    EyeLike,
    DepthToSpace,
    Norm2,
    ResizeF,
    Quant,
    Seq,
    Misc,
    Rnn,
    Attn,
    LayoutAny,
}

/// Which op families a check wants, with weights.
#[derive(Clone, Debug)]
pub struct Profile {
    pub families: Vec<(u32, Family)>,
    pub allow_empty_dims: bool,
    pub max_dim: usize,
    /// Occasionally give graph inputs large dims (7, 8, 16, 17, 32, 33) so that
    /// vectorised / blocked code paths with remainders are reached; the element
    /// count stays <= 4096. Off in the pre-existing profiles.
    pub big_dims: bool,
}

impl Profile {
    pub fn general() -> Profile {
        use Family::*;
        Profile {
            families: vec![
                (6, UnaryF),
                (1, UnaryI),
                (6, BinaryF),
                (2, BinaryI),
                (2, Compare),
                (1, Logic),
                (2, Where),
                (2, Cast),
                (1, Clip),
                (3, Reduce),
                (1, ArgReduce),
                (2, Softmax),
                (2, LayerNorm),
                (3, MatMul),
                (1, Gemm),
                (3, Transpose),
                (3, Reshape),
                (1, Flatten),
                (1, Squeeze),
                (2, Unsqueeze),
                (3, Concat),
                (3, Slice),
                (2, Split),
                (2, Expand),
                (1, Tile),
                (2, Gather),
                (2, Shape),
                (2, ShapeArith),
                (1, Pad),
                (1, CumSum),
                (1, Conv),
                (1, Pool),
                (1, Identity),
                (1, ConstantOfShape),
            ],
            allow_empty_dims: true,
            max_dim: 5,
            big_dims: false,
        }
    }
    /// Ops that can run in place / commute, data movement, multi-consumer values.
    pub fn inplace_biased() -> Profile {
        use Family::*;
        Profile {
            families: vec![
                (8, UnaryF),
                (8, BinaryF),
                (2, BinaryI),
                (1, UnaryI),
                (2, Clip),
                (3, Reshape),
                (2, Squeeze),
                (2, Unsqueeze),
                (3, Concat),
                (2, Softmax),
                (2, LayerNorm),
                (2, Slice),
                (2, Cast),
                (2, Identity),
                (2, MatMul),
                (1, Conv),
                (1, Where),
                (1, Transpose),
                (1, Flatten),
                (1, Reduce),
            ],
            allow_empty_dims: false,
            max_dim: 5,
            big_dims: false,
        }
    }
    /// Every family, including the ones appended for the operator-level
    /// checks (C12-C14). Values may contain NaN/inf (IsNaN/IsInf inputs), so
    /// this profile is not meant for tolerance-based differential checks.
    pub fn all_ops() -> Profile {
        use Family::*;
        let mut p = Profile::general();
        p.families.extend_from_slice(&[
            (2, Random),
            (4, UnaryF2),
            (1, IsNanInf),
            (3, ModPow),
            (3, Variadic),
            (6, BinaryBcast),
            (3, GatherEl),
            (3, ScatterF),
            (2, OneHot),
            (2, TopK),
            (1, NonZero),
            (2, Trilu),
            (1, Range),
            (1, EyeLike),
            (1, DepthToSpace),
            (5, Norm2),
            (3, ResizeF),
            (5, Quant),
            (6, Seq),
            (6, Misc),
            (2, Rnn),
            (4, Attn),
            (4, LayoutAny),
        ]);
        p.big_dims = true;
        p
    }
    pub fn with_random(mut self) -> Profile {
        self.families.push((6, Family::Random));
        self
    }
    fn pick(&self, sel: u16) -> Family {
        let total: u32 = self.families.iter().map(|(w, _)| *w).sum();
        let mut x = (sel as u32 * total) >> 16;
        for (w, f) in &self.families {
            if x < *w {
                return *f;
            }
            x -= w;
        }
        self.families[0].1
    }
}

#[derive(Clone, Copy, Debug, PartialEq, Eq, Serialize, Deserialize)]
pub enum VKind {
    Input,
    Const,
    Inter,
}

#[derive(Clone, Debug, PartialEq, Serialize, Deserialize)]
pub struct V {
    pub name: String,
    pub dtype: DType,
    pub shape: Vec<usize>,
    /// upper bound on |value| (floats and ints)
    pub mag: f64,
    pub kind: VKind,
    /// produced (directly or transitively) by a non-deterministic op
    pub random: bool,
}

impl V {
    pub fn numel(&self) -> usize {
        self.shape.iter().product()
    }
}

#[derive(Clone, Debug, PartialEq, Serialize, Deserialize)]
pub struct Built {
    pub model: ModelDef,
    pub inputs: Vec<(String, TVal)>,
    pub outputs: Vec<String>,
    /// every value in creation order (inputs, then per node its constants and outputs)
    pub values: Vec<V>,
    /// op types of the generated nodes, in order
    pub op_types: Vec<String>,
}

fn idx(sel: u16, n: usize) -> usize {
    debug_assert!(n > 0);
    ((sel as usize) * n) >> 16
}

fn hash32(a: u32, b: u32) -> u32 {
    let mut x = a.wrapping_mul(0x9E3779B1) ^ b.wrapping_add(0x7F4A7C15).wrapping_mul(0x85EBCA6B);
    x ^= x >> 15;
    x = x.wrapping_mul(0x2C1B3C6D);
    x ^= x >> 12;
    x = x.wrapping_mul(0x297A2D39);
    x ^= x >> 15;
    x
}

/// "Nice" float in [-4, 4]: a multiple of 0.25.
fn nice_f32(seed: u32, i: u32) -> f32 {
    ((hash32(seed, i) % 33) as i32 - 16) as f32 * 0.25
}

fn nice_int(seed: u32, i: u32) -> i64 {
    (hash32(seed, i) % 9) as i64 - 4
}

const TOO_BIG: f64 = 1.0e4;

pub struct Builder<'a> {
    profile: &'a Profile,
    seed: u32,
    pub vals: Vec<V>,
    nodes: Vec<NodeDef>,
    inits: Vec<(String, TensorLit)>,
    counter: usize,
}

impl<'a> Builder<'a> {
    fn fresh(&mut self, prefix: &str) -> String {
        self.counter += 1;
        format!("{prefix}{}", self.counter)
    }

    fn add_val(&mut self, name: &str, dtype: DType, shape: Vec<usize>, mag: f64, kind: VKind, random: bool) -> usize {
        self.vals.push(V { name: name.to_string(), dtype, shape, mag, kind, random });
        self.vals.len() - 1
    }

    /// Constant initializer with generated contents.
    fn const_f32(&mut self, shape: &[usize], gen: impl Fn(u32) -> f32) -> usize {
        let name = self.fresh("c");
        let n: usize = shape.iter().product();
        let data: Vec<f32> = (0..n as u32).map(gen).collect();
        let mag = data.iter().fold(0.0f64, |m, v| m.max(v.abs() as f64));
        let dims: Vec<i64> = shape.iter().map(|d| *d as i64).collect();
        let mut lit = TensorLit::f32(&dims, data);
        lit.raw = hash32(self.seed, self.counter as u32) % 3 != 0;
        self.inits.push((name.clone(), lit));
        self.add_val(&name, DType::F32, shape.to_vec(), mag, VKind::Const, false)
    }

    fn const_i64(&mut self, shape: &[usize], data: Vec<i64>) -> usize {
        let name = self.fresh("k");
        let mag = data.iter().fold(0.0f64, |m, v| m.max(v.unsigned_abs() as f64));
        let dims: Vec<i64> = shape.iter().map(|d| *d as i64).collect();
        let mut lit = TensorLit::i64(&dims, data);
        lit.raw = hash32(self.seed, self.counter as u32) % 3 != 0;
        self.inits.push((name.clone(), lit));
        self.add_val(&name, DType::I64, shape.to_vec(), mag, VKind::Const, false)
    }

    fn const_i64_vec(&mut self, data: &[i64]) -> usize {
        self.const_i64(&[data.len()], data.to_vec())
    }

    fn const_typed(&mut self, dtype: DType, shape: &[usize], salt: u32) -> usize {
        let seed = self.seed ^ salt;
        match dtype {
            DType::F32 | DType::F64 => self.const_f32(shape, |i| nice_f32(seed, i)),
            DType::Bool => {
                let n: usize = shape.iter().product();
                let name = self.fresh("b");
                let dims: Vec<i64> = shape.iter().map(|d| *d as i64).collect();
                let lit = TensorLit {
                    dtype: DType::Bool,
                    dims,
                    f: vec![],
                    i: (0..n as u32).map(|i| (hash32(seed, i) & 1) as i64).collect(),
                    raw: true,
                };
                self.inits.push((name.clone(), lit));
                self.add_val(&name, DType::Bool, shape.to_vec(), 1.0, VKind::Const, false)
            }
            DType::I32 => {
                let n: usize = shape.iter().product();
                let name = self.fresh("k");
                let dims: Vec<i64> = shape.iter().map(|d| *d as i64).collect();
                let lit = TensorLit::i32(&dims, (0..n as u32).map(|i| nice_int(seed, i)).collect());
                self.inits.push((name.clone(), lit));
                self.add_val(&name, DType::I32, shape.to_vec(), 4.0, VKind::Const, false)
            }
            _ => {
                let n: usize = shape.iter().product();
                self.const_i64(shape, (0..n as u32).map(|i| nice_int(seed, i)).collect())
            }
        }
    }

    /// Candidates satisfying `pred`, newest first.
    fn cands(&self, pred: impl Fn(&V) -> bool) -> Vec<usize> {
        (0..self.vals.len()).rev().filter(|i| pred(&self.vals[*i])).collect()
    }

    fn pick_val(&self, sel: u16, pred: impl Fn(&V) -> bool) -> Option<usize> {
        let c = self.cands(pred);
        if c.is_empty() {
            None
        } else {
            Some(c[idx(sel, c.len())])
        }
    }

    fn node(&mut self, op: &str, inputs: &[usize], attrs: Vec<(&str, Attr)>, outs: Vec<(DType, Vec<usize>, f64)>) -> Vec<usize> {
        let in_names: Vec<String> = inputs.iter().map(|i| self.vals[*i].name.clone()).collect();
        self.node_named(op, in_names, attrs, outs, inputs.iter().any(|i| self.vals[*i].random))
    }

    fn node_named(
        &mut self,
        op: &str,
        in_names: Vec<String>,
        attrs: Vec<(&str, Attr)>,
        outs: Vec<(DType, Vec<usize>, f64)>,
        random: bool,
    ) -> Vec<usize> {
        let name = self.fresh("n");
        let mut out_ids = Vec::new();
        let mut out_names = Vec::new();
        for (dt, shape, mag) in outs {
            let vname = self.fresh("v");
            out_names.push(vname.clone());
            out_ids.push(self.add_val(&vname, dt, shape, mag, VKind::Inter, random));
        }
        self.nodes.push(NodeDef {
            op: op.to_string(),
            domain: String::new(),
            name,
            inputs: in_names,
            outputs: out_names,
            attrs: attrs.into_iter().map(|(k, v)| (k.to_string(), v)).collect(),
        });
        out_ids
    }

    fn is_f(v: &V) -> bool {
        v.dtype == DType::F32
    }
    fn is_i(v: &V) -> bool {
        matches!(v.dtype, DType::I32 | DType::I64)
    }
}

fn broadcast_shape(a: &[usize], b: &[usize]) -> Option<Vec<usize>> {
    let n = a.len().max(b.len());
    let mut out = vec![0; n];
    for i in 0..n {
        let x = if i + a.len() >= n { a[i + a.len() - n] } else { 1 };
        let y = if i + b.len() >= n { b[i + b.len() - n] } else { 1 };
        out[i] = if x == y {
            x
        } else if x == 1 {
            y
        } else if y == 1 {
            x
        } else {
            return None;
        };
    }
    Some(out)
}

const UNARY_F: &[(&str, f64)] = &[
    // (op, magnitude bound of the result; 0.0 = same as input)
    ("Neg", 0.0),
    ("Abs", 0.0),
    ("Relu", 0.0),
    ("Sigmoid", 1.0),
    ("Tanh", 1.0),
    ("Erf", 1.0),
    ("Floor", -1.0), // -1.0 = input + 1
    ("Ceil", -1.0),
    ("Round", -1.0),
    ("Sin", 1.0),
    ("Cos", 1.0),
    ("Softplus", -1.0),
    ("Identity", 0.0),
    ("Gelu", 0.0),
    ("HardSigmoid", 1.0),
    ("HardSwish", 0.0),
    ("LeakyRelu", 0.0),
    ("Elu", 0.0),
    ("Sign", 1.0),
    ("Exp", -2.0), // only when mag <= 6
    ("Sqrt", -3.0), // applied to Abs(x)
    ("Reciprocal", -4.0), // applied to Abs(x)+1
    ("Swish", 0.0),
];

impl<'a> Builder<'a> {
    /// A float value to operate on; falls back to the first input cast to float.
    fn some_float(&mut self, sel: u16) -> usize {
        if let Some(i) = self.pick_val(sel, |v| Self::is_f(v) && v.mag <= TOO_BIG) {
            return i;
        }
        if let Some(i) = self.pick_val(sel, Self::is_f) {
            // squash
            let (shape, _) = (self.vals[i].shape.clone(), 0);
            return self.node("Tanh", &[i], vec![], vec![(DType::F32, shape, 1.0)])[0];
        }
        // no float at all: cast something
        let i = self.pick_val(sel, |_| true).unwrap();
        let shape = self.vals[i].shape.clone();
        let mag = self.vals[i].mag;
        self.node("Cast", &[i], vec![("to", Attr::Int(1))], vec![(DType::F32, shape, mag)])[0]
    }

    fn apply(&mut self, raw: &RawNode) {
        let fam = self.profile.pick(raw.op);
        let ok = self.apply_family(fam, raw);
        if !ok {
            // degrade: a unary float op always applies
            self.apply_family(Family::UnaryF, raw);
        }
    }

    fn apply_family(&mut self, fam: Family, raw: &RawNode) -> bool {
        use Family::*;
        let [s0, s1, s2] = raw.ins;
        let a = raw.a;
        match fam {
            UnaryF => {
                let x = self.some_float(s0);
                let (op, magrule) = UNARY_F[idx(a[0], UNARY_F.len())];
                let shape = self.vals[x].shape.clone();
                let m = self.vals[x].mag;
                match magrule as i32 {
                    -2 => {
                        if m > 6.0 {
                            self.node("Tanh", &[x], vec![], vec![(DType::F32, shape, 1.0)]);
                        } else {
                            self.node("Exp", &[x], vec![], vec![(DType::F32, shape, m.exp())]);
                        }
                    }
                    -3 => {
                        let ab = self.node("Abs", &[x], vec![], vec![(DType::F32, shape.clone(), m)])[0];
                        self.node("Sqrt", &[ab], vec![], vec![(DType::F32, shape, m.sqrt().max(1.0))]);
                    }
                    -4 => {
                        let ab = self.node("Abs", &[x], vec![], vec![(DType::F32, shape.clone(), m)])[0];
                        let one = self.const_f32(&[], |_| 1.0);
                        let p = self.node("Add", &[ab, one], vec![], vec![(DType::F32, shape.clone(), m + 1.0)])[0];
                        self.node("Reciprocal", &[p], vec![], vec![(DType::F32, shape, 1.0)]);
                    }
                    _ => {
                        let out_m = if magrule > 0.0 {
                            magrule
                        } else if magrule < 0.0 {
                            m + 1.0
                        } else {
                            m
                        };
                        let attrs = match op {
                            "LeakyRelu" => vec![("alpha", Attr::Float(0.125))],
                            "Elu" => vec![("alpha", Attr::Float(0.5))],
                            "Gelu" if a[1] & 1 == 1 => vec![("approximate", Attr::Str("tanh".into()))],
                            "Swish" => vec![("alpha", Attr::Float(if a[1] & 1 == 1 { 1.0 } else { 0.5 }))],
                            _ => vec![],
                        };
                        self.node(op, &[x], attrs, vec![(DType::F32, shape, out_m)]);
                    }
                }
                true
            }
            UnaryI => {
                let Some(x) = self.pick_val(s0, |v| Self::is_i(v) && v.mag < 1e6) else { return false };
                let op = ["Neg", "Abs", "Identity", "Sign"][idx(a[0], 4)];
                let v = self.vals[x].clone();
                self.node(op, &[x], vec![], vec![(v.dtype, v.shape, v.mag)]);
                true
            }
            BinaryF | BinaryI => {
                let is_float = fam == BinaryF;
                let x = if is_float {
                    self.some_float(s0)
                } else {
                    match self.pick_val(s0, |v| Self::is_i(v) && v.mag < 1e4) {
                        Some(x) => x,
                        None => return false,
                    }
                };
                let xv = self.vals[x].clone();
                let ops: &[&str] = if is_float {
                    &["Add", "Sub", "Mul", "Max", "Min", "Div", "Add", "Mul", "PRelu"]
                } else {
                    &["Add", "Sub", "Mul", "Max", "Min"]
                };
                let op = ops[idx(a[0], ops.len())];
                // second operand
                let mut y = None;
                if op != "Div" && a[1] % 3 != 0 {
                    // an existing broadcast-compatible value of the same dtype (possibly x itself)
                    y = self.pick_val(s1, |v| {
                        v.dtype == xv.dtype && v.mag <= TOO_BIG && broadcast_shape(&xv.shape, &v.shape).is_some()
                    });
                }
                let y = match y {
                    Some(y) => y,
                    None => {
                        // a constant: scalar, [1], last-dim vector, leading-ones, or full shape
                        let r = xv.shape.len();
                        let cshape: Vec<usize> = match a[2] % 6 {
                            0 => vec![],
                            1 => vec![1],
                            2 if r >= 1 => vec![xv.shape[r - 1]],
                            3 if r >= 2 => {
                                let mut s = xv.shape.clone();
                                s[r - 1] = 1;
                                s
                            }
                            4 => vec![1; r],
                            _ => xv.shape.clone(),
                        };
                        if is_float {
                            let seed = self.seed ^ (a[3] as u32);
                            if op == "Div" {
                                // never zero: ±{0.5, 1, 2, 4} (exact reciprocals) and ±{3, 0.3, 7, 10} (inexact ones)
                                self.const_f32(&cshape, |i| {
                                    let h = hash32(seed, i);
                                    let m = [0.5f32, 1.0, 2.0, 4.0, 3.0, 0.3, 7.0, 10.0][(h % 8) as usize];
                                    if h & 16 == 0 {
                                        m
                                    } else {
                                        -m
                                    }
                                })
                            } else {
                                // canonical identity constants appear often (0, 1) so that
                                // identity-elimination patterns are exercised
                                match a[3] % 5 {
                                    0 => self.const_f32(&cshape, |_| 0.0),
                                    1 => self.const_f32(&cshape, |_| 1.0),
                                    _ => self.const_f32(&cshape, |i| nice_f32(seed, i)),
                                }
                            }
                        } else {
                            self.const_typed(xv.dtype, &cshape, a[3] as u32)
                        }
                    }
                };
                let yv = self.vals[y].clone();
                let (lhs, rhs) = if a[1] % 2 == 1 && op != "Div" && op != "PRelu" { (y, x) } else { (x, y) };
                let lv = self.vals[lhs].clone();
                let rv = self.vals[rhs].clone();
                let Some(shape) = broadcast_shape(&lv.shape, &rv.shape) else { return false };
                if op == "PRelu" {
                    // slope must broadcast unidirectionally to x
                    if shape != lv.shape {
                        return false;
                    }
                }
                let mag = match op {
                    "Add" | "Sub" => xv.mag + yv.mag,
                    "Mul" | "PRelu" => (xv.mag * yv.mag).max(xv.mag),
                    "Div" => xv.mag * 2.0,
                    _ => xv.mag.max(yv.mag),
                };
                self.node(op, &[lhs, rhs], vec![], vec![(xv.dtype, shape, mag)]);
                true
            }
            Compare => {
                let Some(x) = self.pick_val(s0, |v| (Self::is_f(v) || Self::is_i(v)) && v.mag <= TOO_BIG) else { return false };
                let xv = self.vals[x].clone();
                let y = self
                    .pick_val(s1, |v| v.dtype == xv.dtype && broadcast_shape(&xv.shape, &v.shape).is_some())
                    .unwrap_or(x);
                let y = if a[1] % 3 == 0 { self.const_typed(xv.dtype, &[], a[2] as u32) } else { y };
                let shape = broadcast_shape(&xv.shape, &self.vals[y].shape).unwrap();
                let op = ["Greater", "Less", "Equal", "GreaterOrEqual", "LessOrEqual"][idx(a[0], 5)];
                self.node(op, &[x, y], vec![], vec![(DType::Bool, shape, 1.0)]);
                true
            }
            Logic => {
                let Some(x) = self.pick_val(s0, |v| v.dtype == DType::Bool) else { return false };
                let xv = self.vals[x].clone();
                if a[0] % 4 == 0 {
                    self.node("Not", &[x], vec![], vec![(DType::Bool, xv.shape, 1.0)]);
                } else {
                    let y = self
                        .pick_val(s1, |v| v.dtype == DType::Bool && broadcast_shape(&xv.shape, &v.shape).is_some())
                        .unwrap_or(x);
                    let shape = broadcast_shape(&xv.shape, &self.vals[y].shape).unwrap();
                    let op = ["And", "Or", "Xor"][idx(a[1], 3)];
                    self.node(op, &[x, y], vec![], vec![(DType::Bool, shape, 1.0)]);
                }
                true
            }
            Where => {
                let x = self.some_float(s0);
                let xv = self.vals[x].clone();
                let cond = match self.pick_val(s1, |v| v.dtype == DType::Bool && broadcast_shape(&xv.shape, &v.shape) == Some(xv.shape.clone())) {
                    Some(c) => c,
                    None => {
                        let zero = self.const_f32(&[], |_| 0.0);
                        self.node("Greater", &[x, zero], vec![], vec![(DType::Bool, xv.shape.clone(), 1.0)])[0]
                    }
                };
                let y = self
                    .pick_val(s2, |v| Self::is_f(v) && v.mag <= TOO_BIG && broadcast_shape(&xv.shape, &v.shape) == Some(xv.shape.clone()))
                    .unwrap_or(x);
                let y = if a[0] % 3 == 0 { self.const_f32(&[], |_| 0.0) } else { y };
                let mag = xv.mag.max(self.vals[y].mag);
                let (p, q) = if a[1] & 1 == 0 { (x, y) } else { (y, x) };
                self.node("Where", &[cond, p, q], vec![], vec![(DType::F32, xv.shape, mag)]);
                true
            }
            Cast => {
                let Some(x) = self.pick_val(s0, |v| v.mag < 1e6) else { return false };
                let xv = self.vals[x].clone();
                let targets: &[DType] = match xv.dtype {
                    DType::F32 | DType::F64 => &[DType::I32, DType::I64, DType::Bool, DType::F32],
                    DType::Bool => &[DType::F32, DType::I32, DType::I64],
                    _ => &[DType::F32, DType::I64, DType::I32, DType::Bool],
                };
                let to = targets[idx(a[0], targets.len())];
                let mag = if to == DType::Bool { 1.0 } else { xv.mag };
                self.node("Cast", &[x], vec![("to", Attr::Int(to.onnx_code()))], vec![(to, xv.shape, mag)]);
                true
            }
            Clip => {
                let x = self.some_float(s0);
                let xv = self.vals[x].clone();
                let lo = -((a[0] % 4) as f32) * 0.5;
                let hi = ((a[1] % 4) as f32) * 0.5 + 0.25;
                let lo_c = self.const_f32(&[], |_| lo);
                let hi_c = self.const_f32(&[], |_| hi);
                match a[2] % 3 {
                    0 => {
                        let names = vec![xv.name.clone(), self.vals[lo_c].name.clone()];
                        self.node_named("Clip", names, vec![], vec![(DType::F32, xv.shape, xv.mag)], xv.random);
                    }
                    1 => {
                        let names = vec![xv.name.clone(), String::new(), self.vals[hi_c].name.clone()];
                        self.node_named("Clip", names, vec![], vec![(DType::F32, xv.shape, xv.mag)], xv.random);
                    }
                    _ => {
                        self.node("Clip", &[x, lo_c, hi_c], vec![], vec![(DType::F32, xv.shape, 2.0)]);
                    }
                }
                true
            }
            Reduce => {
                let x = self.some_float(s0);
                let xv = self.vals[x].clone();
                let r = xv.shape.len();
                let ops = ["ReduceSum", "ReduceMean", "ReduceMax", "ReduceMin", "ReduceL1", "ReduceL2", "ReduceSumSquare", "ReduceProd", "ReduceLogSumExp"];
                let mut op = ops[idx(a[0], ops.len())];
                if op == "ReduceProd" && (xv.mag > 2.0 || xv.numel() > 8) {
                    op = "ReduceSum";
                }
                if op == "ReduceLogSumExp" && xv.mag > 8.0 {
                    op = "ReduceMean";
                }
                let keepdims = (a[1] & 1) as i64;
                // axes: none (reduce all), or a non-empty subset
                let mut axes: Vec<i64> = Vec::new();
                if r > 0 && a[2] % 4 != 0 {
                    for d in 0..r {
                        if (a[3] >> d) & 1 == 1 {
                            axes.push(if (a[2] >> (4 + d)) & 1 == 1 { d as i64 - r as i64 } else { d as i64 });
                        }
                    }
                    if axes.is_empty() {
                        axes.push(-1);
                    }
                }
                let reduced: Vec<usize> = axes.iter().map(|ax| if *ax < 0 { (*ax + r as i64) as usize } else { *ax as usize }).collect();
                let all = axes.is_empty();
                let mut shape = Vec::new();
                for d in 0..r {
                    if all || reduced.contains(&d) {
                        if keepdims == 1 {
                            shape.push(1);
                        }
                    } else {
                        shape.push(xv.shape[d]);
                    }
                }
                let n = xv.numel().max(1) as f64;
                let mag = match op {
                    "ReduceSum" | "ReduceL1" => xv.mag * n,
                    "ReduceSumSquare" => xv.mag * xv.mag * n,
                    "ReduceL2" => xv.mag * n.sqrt(),
                    "ReduceProd" => xv.mag.max(1.0).powf(n),
                    "ReduceLogSumExp" => xv.mag + n.ln() + 1.0,
                    _ => xv.mag,
                };
                let attrs = vec![("keepdims", Attr::Int(keepdims))];
                if all {
                    self.node(op, &[x], attrs, vec![(DType::F32, shape, mag)]);
                } else {
                    let ax = self.const_i64_vec(&axes);
                    self.node(op, &[x, ax], attrs, vec![(DType::F32, shape, mag)]);
                }
                true
            }
            ArgReduce => {
                let x = self.some_float(s0);
                let xv = self.vals[x].clone();
                let r = xv.shape.len();
                if r == 0 || xv.numel() == 0 {
                    return false;
                }
                let axis = idx(a[0], r);
                let keepdims = (a[1] & 1) as i64;
                let mut shape = xv.shape.clone();
                if keepdims == 1 {
                    shape[axis] = 1;
                } else {
                    shape.remove(axis);
                }
                let op = if a[2] & 1 == 0 { "ArgMax" } else { "ArgMin" };
                let ax = if a[3] & 1 == 0 { axis as i64 } else { axis as i64 - r as i64 };
                self.node(op, &[x], vec![("axis", Attr::Int(ax)), ("keepdims", Attr::Int(keepdims))], vec![(DType::I64, shape, xv.shape[axis] as f64)]);
                true
            }
            Softmax => {
                let x = self.some_float(s0);
                let xv = self.vals[x].clone();
                let r = xv.shape.len();
                if r == 0 {
                    return false;
                }
                let axis = if a[0] % 3 == 0 { idx(a[1], r) as i64 } else { -1 };
                let ax = if axis >= 0 && a[2] & 1 == 1 { axis - r as i64 } else { axis };
                let (op, mag) = if a[3] % 4 == 0 { ("LogSoftmax", xv.mag * 2.0 + 10.0) } else { ("Softmax", 1.0) };
                self.node(op, &[x], vec![("axis", Attr::Int(ax))], vec![(DType::F32, xv.shape, mag)]);
                true
            }
            LayerNorm => {
                let x = self.some_float(s0);
                let xv = self.vals[x].clone();
                let r = xv.shape.len();
                if r == 0 || xv.numel() == 0 {
                    return false;
                }
                let d = xv.shape[r - 1];
                let seed = self.seed ^ a[0] as u32;
                let scale = self.const_f32(&[d], |i| 0.5 + (hash32(seed, i) % 4) as f32 * 0.25);
                let mut ins = vec![x, scale];
                if a[1] % 3 != 0 {
                    let bias = self.const_f32(&[d], |i| nice_f32(seed ^ 77, i) * 0.25);
                    ins.push(bias);
                }
                let op = if a[2] % 4 == 0 { "RMSNormalization" } else { "LayerNormalization" };
                let mag = 2.0 * (d as f64).sqrt() + 2.0;
                self.node(op, &ins[..if op == "RMSNormalization" { 2 } else { ins.len() }], vec![("axis", Attr::Int(-1)), ("epsilon", Attr::Float(1e-5))], vec![(DType::F32, xv.shape, mag)]);
                true
            }
            MatMul => {
                let x = self.some_float(s0);
                let xv = self.vals[x].clone();
                let r = xv.shape.len();
                if r < 2 || xv.mag > 100.0 {
                    return false;
                }
                let k = xv.shape[r - 1];
                // rhs: existing [.., k, n] value, or a constant [k, n]
                let rhs = if a[0] % 3 == 0 {
                    self.pick_val(s1, |v| {
                        Self::is_f(v) && v.mag <= 100.0 && v.shape.len() >= 2 && v.shape[v.shape.len() - 2] == k && {
                            let vb = &v.shape[..v.shape.len() - 2];
                            let xb = &xv.shape[..r - 2];
                            broadcast_shape(vb, xb).is_some()
                        }
                    })
                } else {
                    None
                };
                let rhs = match rhs {
                    Some(v) => v,
                    None => {
                        let n = 1 + (a[1] % 5) as usize;
                        let seed = self.seed ^ a[2] as u32;
                        self.const_f32(&[k, n], |i| nice_f32(seed, i) * 0.25)
                    }
                };
                let rv = self.vals[rhs].clone();
                let rr = rv.shape.len();
                let mut shape = broadcast_shape(&xv.shape[..r - 2], &rv.shape[..rr - 2]).unwrap();
                shape.push(xv.shape[r - 2]);
                shape.push(rv.shape[rr - 1]);
                let mag = xv.mag * rv.mag * k.max(1) as f64;
                let out = self.node("MatMul", &[x, rhs], vec![], vec![(DType::F32, shape.clone(), mag)])[0];
                // frequently follow with a bias add / scale (fusion patterns)
                match a[3] % 4 {
                    0 => {
                        let n = *shape.last().unwrap();
                        let seed = self.seed ^ 0xB1A5;
                        let bias = self.const_f32(&[n], |i| nice_f32(seed, i));
                        self.node("Add", &[out, bias], vec![], vec![(DType::F32, shape, mag + 4.0)]);
                    }
                    1 => {
                        let sc = self.const_f32(&[], |_| 0.5);
                        self.node("Mul", &[out, sc], vec![], vec![(DType::F32, shape, mag)]);
                    }
                    _ => {}
                }
                true
            }
            Gemm => {
                let Some(x) = self.pick_val(s0, |v| Self::is_f(v) && v.shape.len() == 2 && v.mag <= 100.0) else { return false };
                let xv = self.vals[x].clone();
                let trans_a = (a[0] & 1) as i64;
                let trans_b = ((a[0] >> 1) & 1) as i64;
                let (m, k) = if trans_a == 1 { (xv.shape[1], xv.shape[0]) } else { (xv.shape[0], xv.shape[1]) };
                let n = 1 + (a[1] % 4) as usize;
                let seed = self.seed ^ a[2] as u32;
                let bshape = if trans_b == 1 { vec![n, k] } else { vec![k, n] };
                let b = self.const_f32(&bshape, |i| nice_f32(seed, i) * 0.25);
                let mut ins = vec![x, b];
                if a[3] % 2 == 0 {
                    let cshape = match a[3] % 3 {
                        0 => vec![n],
                        1 => vec![m, n],
                        _ => vec![1, n],
                    };
                    let c = self.const_f32(&cshape, |i| nice_f32(seed ^ 5, i));
                    ins.push(c);
                }
                let alpha = [1.0f32, 0.5, 2.0][(a[1] as usize >> 4) % 3];
                let beta = [1.0f32, 0.5, 0.0][(a[1] as usize >> 8) % 3];
                let mag = xv.mag * k.max(1) as f64 * 2.0 + 8.0;
                self.node(
                    "Gemm",
                    &ins,
                    vec![("transA", Attr::Int(trans_a)), ("transB", Attr::Int(trans_b)), ("alpha", Attr::Float(alpha)), ("beta", Attr::Float(beta))],
                    vec![(DType::F32, vec![m, n], mag)],
                );
                true
            }
            Transpose => {
                let Some(x) = self.pick_val(s0, |v| v.shape.len() >= 2) else { return false };
                let xv = self.vals[x].clone();
                let r = xv.shape.len();
                let mut perm: Vec<usize> = (0..r).collect();
                // Fisher-Yates driven by the raw selectors
                for i in (1..r).rev() {
                    let j = (hash32(a[0] as u32, i as u32) as usize) % (i + 1);
                    perm.swap(i, j);
                }
                if a[1] % 4 == 0 {
                    perm.reverse();
                }
                let shape: Vec<usize> = perm.iter().map(|p| xv.shape[*p]).collect();
                let attrs = if a[1] % 4 == 0 && perm.iter().rev().copied().eq(0..r) {
                    vec![] // default = reverse dims
                } else {
                    vec![("perm", Attr::Ints(perm.iter().map(|p| *p as i64).collect()))]
                };
                self.node("Transpose", &[x], attrs, vec![(xv.dtype, shape, xv.mag)]);
                true
            }
            Reshape => {
                let Some(x) = self.pick_val(s0, |_| true) else { return false };
                let xv = self.vals[x].clone();
                let n = xv.numel();
                let r = xv.shape.len();
                if n == 0 {
                    return false; // 0 in a Reshape target means "copy the input dim"
                }
                let (target, concrete): (Vec<i64>, Vec<usize>) = match a[0] % 6 {
                    0 => (vec![-1], vec![n]),
                    1 if r >= 2 => {
                        let lead = xv.shape[0];
                        (vec![0, -1], vec![lead, if lead == 0 { 0 } else { n / lead }])
                    }
                    2 if r >= 2 => {
                        let mut c = xv.shape[..r - 2].to_vec();
                        c.push(xv.shape[r - 2] * xv.shape[r - 1]);
                        (c.iter().map(|d| *d as i64).collect(), c)
                    }
                    3 if r >= 1 && xv.shape[r - 1] % 2 == 0 && xv.shape[r - 1] > 0 => {
                        let mut c = xv.shape[..r - 1].to_vec();
                        c.push(2);
                        c.push(xv.shape[r - 1] / 2);
                        (c.iter().map(|d| *d as i64).collect(), c)
                    }
                    4 => {
                        let mut c = vec![1];
                        c.extend_from_slice(&xv.shape);
                        (c.iter().map(|d| *d as i64).collect(), c)
                    }
                    _ => (vec![1, -1], vec![1, n]),
                };
                if target.contains(&-1) && n == 0 {
                    return false;
                }
                // the target either as a constant or computed from Shape (same numel source)
                let shape_in = self.const_i64_vec(&target);
                self.node("Reshape", &[x, shape_in], vec![], vec![(xv.dtype, concrete, xv.mag)]);
                true
            }
            Flatten => {
                let Some(x) = self.pick_val(s0, |_| true) else { return false };
                let xv = self.vals[x].clone();
                let r = xv.shape.len();
                let axis = idx(a[0], r + 1);
                let d0: usize = xv.shape[..axis].iter().product();
                let d1: usize = xv.shape[axis..].iter().product();
                self.node("Flatten", &[x], vec![("axis", Attr::Int(axis as i64))], vec![(xv.dtype, vec![d0, d1], xv.mag)]);
                true
            }
            Squeeze => {
                let Some(x) = self.pick_val(s0, |v| v.shape.contains(&1)) else { return false };
                let xv = self.vals[x].clone();
                let ones: Vec<usize> = (0..xv.shape.len()).filter(|d| xv.shape[*d] == 1).collect();
                if a[0] % 3 == 0 {
                    let shape: Vec<usize> = xv.shape.iter().copied().filter(|d| *d != 1).collect();
                    self.node("Squeeze", &[x], vec![], vec![(xv.dtype, shape, xv.mag)]);
                } else {
                    let d = ones[idx(a[1], ones.len())];
                    let mut shape = xv.shape.clone();
                    shape.remove(d);
                    let ax = if a[2] & 1 == 0 { d as i64 } else { d as i64 - xv.shape.len() as i64 };
                    let axc = self.const_i64_vec(&[ax]);
                    self.node("Squeeze", &[x, axc], vec![], vec![(xv.dtype, shape, xv.mag)]);
                }
                true
            }
            Unsqueeze => {
                let Some(x) = self.pick_val(s0, |v| v.shape.len() <= 4) else { return false };
                let xv = self.vals[x].clone();
                let r = xv.shape.len();
                let d = idx(a[0], r + 1);
                let mut shape = xv.shape.clone();
                shape.insert(d, 1);
                let ax = if a[1] & 1 == 0 { d as i64 } else { d as i64 - (r as i64 + 1) };
                let axc = self.const_i64_vec(&[ax]);
                self.node("Unsqueeze", &[x, axc], vec![], vec![(xv.dtype, shape, xv.mag)]);
                true
            }
            Concat => {
                let Some(x) = self.pick_val(s0, |v| !v.shape.is_empty()) else { return false };
                let xv = self.vals[x].clone();
                let r = xv.shape.len();
                let axis = idx(a[0], r);
                let compatible = |v: &V| {
                    v.dtype == xv.dtype && v.shape.len() == r && (0..r).all(|d| d == axis || v.shape[d] == xv.shape[d])
                };
                let mut parts = vec![x];
                let count = 1 + (a[1] % 3) as usize;
                for (j, s) in [s1, s2].iter().enumerate().take(count) {
                    if a[2] % 4 == 0 {
                        let mut cs = xv.shape.clone();
                        cs[axis] = 1 + j;
                        parts.push(self.const_typed(xv.dtype, &cs, a[3] as u32 + j as u32));
                    } else if let Some(y) = self.pick_val(*s, compatible) {
                        parts.push(y);
                    }
                }
                let mut shape = xv.shape.clone();
                shape[axis] = parts.iter().map(|p| self.vals[*p].shape[axis]).sum();
                let mag = parts.iter().map(|p| self.vals[*p].mag).fold(0.0, f64::max);
                let ax = if a[3] & 1 == 0 { axis as i64 } else { axis as i64 - r as i64 };
                self.node("Concat", &parts, vec![("axis", Attr::Int(ax))], vec![(xv.dtype, shape, mag)]);
                true
            }
            Slice => {
                let Some(x) = self.pick_val(s0, |v| !v.shape.is_empty()) else { return false };
                let xv = self.vals[x].clone();
                let r = xv.shape.len();
                let axis = idx(a[0], r);
                let size = xv.shape[axis] as i64;
                let step = [1i64, 1, 2, -1, -2, 3][idx(a[1], 6)];
                let p = (a[2] % 7) as i64 - 1; // -1..=5
                let q = (a[3] % 8) as i64 - 1;
                let (start, end) = if step > 0 { (p.min(q), p.max(q) + 1) } else { (p.max(q), p.min(q) - 1) };
                // ONNX clamping semantics
                let norm = |v: i64| if v < 0 { v + size } else { v };
                let (cs, ce) = if step > 0 {
                    (norm(start).clamp(0, size), norm(end).clamp(0, size))
                } else {
                    (norm(start).clamp(-1, size - 1), if end < -size { -1 } else { norm(end).clamp(-1, size - 1) })
                };
                // a negative `end` that is meant as "before index 0" cannot be expressed except by <= -size-1
                let end_enc = if step < 0 && end < 0 { -size - 1 } else { end };
                let ce = if step < 0 && end < 0 { -1 } else { ce };
                let len = if step > 0 {
                    ((ce - cs).max(0) + step - 1) / step
                } else {
                    ((cs - ce).max(0) + (-step) - 1) / (-step)
                };
                let mut shape = xv.shape.clone();
                shape[axis] = len as usize;
                let st = self.const_i64_vec(&[start]);
                let en = self.const_i64_vec(&[end_enc]);
                let axv = if (a[0] >> 8) & 1 == 0 { axis as i64 } else { axis as i64 - r as i64 };
                let ax = self.const_i64_vec(&[axv]);
                if step == 1 && (a[1] >> 8) & 1 == 0 {
                    self.node("Slice", &[x, st, en, ax], vec![], vec![(xv.dtype, shape, xv.mag)]);
                } else {
                    let sp = self.const_i64_vec(&[step]);
                    self.node("Slice", &[x, st, en, ax, sp], vec![], vec![(xv.dtype, shape, xv.mag)]);
                }
                true
            }
            Split => {
                let Some(x) = self.pick_val(s0, |v| !v.shape.is_empty() && v.shape.iter().all(|d| *d > 0)) else { return false };
                let xv = self.vals[x].clone();
                let r = xv.shape.len();
                let axis = idx(a[0], r);
                let size = xv.shape[axis];
                let first = idx(a[1], size + 1);
                let sizes = [first, size - first];
                let outs: Vec<(DType, Vec<usize>, f64)> = sizes
                    .iter()
                    .map(|s| {
                        let mut sh = xv.shape.clone();
                        sh[axis] = *s;
                        (xv.dtype, sh, xv.mag)
                    })
                    .collect();
                let sp = self.const_i64_vec(&[sizes[0] as i64, sizes[1] as i64]);
                let ax = if a[2] & 1 == 0 { axis as i64 } else { axis as i64 - r as i64 };
                self.node("Split", &[x, sp], vec![("axis", Attr::Int(ax))], outs);
                true
            }
            Expand => {
                let Some(x) = self.pick_val(s0, |v| v.shape.len() <= 3) else { return false };
                let xv = self.vals[x].clone();
                let mut target: Vec<usize> = xv.shape.clone();
                for (d, t) in target.iter_mut().enumerate() {
                    if *t == 1 && (a[0] >> d) & 1 == 1 {
                        *t = 2 + (a[1] as usize >> d) % 2;
                    }
                }
                if a[2] % 3 == 0 {
                    target.insert(0, 1 + (a[3] % 3) as usize);
                }
                // the shape input may also contain 1s where the input dim is larger
                let enc: Vec<i64> = target
                    .iter()
                    .enumerate()
                    .map(|(d, t)| {
                        let off = target.len() - xv.shape.len();
                        if d >= off && xv.shape[d - off] == *t && (a[3] >> (4 + d)) & 1 == 1 {
                            1
                        } else {
                            *t as i64
                        }
                    })
                    .collect();
                let sh = self.const_i64_vec(&enc);
                self.node("Expand", &[x, sh], vec![], vec![(xv.dtype, target, xv.mag)]);
                true
            }
            Tile => {
                let Some(x) = self.pick_val(s0, |v| !v.shape.is_empty() && v.numel() <= 64) else { return false };
                let xv = self.vals[x].clone();
                let reps: Vec<i64> = (0..xv.shape.len()).map(|d| 1 + ((a[0] >> (2 * d)) % 3) as i64).collect();
                let shape: Vec<usize> = xv.shape.iter().zip(&reps).map(|(s, r)| s * *r as usize).collect();
                let rp = self.const_i64_vec(&reps);
                self.node("Tile", &[x, rp], vec![], vec![(xv.dtype, shape, xv.mag)]);
                true
            }
            Gather => {
                let Some(x) = self.pick_val(s0, |v| !v.shape.is_empty() && v.shape.iter().all(|d| *d > 0)) else { return false };
                let xv = self.vals[x].clone();
                let r = xv.shape.len();
                let axis = idx(a[0], r);
                let size = xv.shape[axis] as i64;
                let ishape: Vec<usize> = match a[1] % 3 {
                    0 => vec![],
                    1 => vec![1 + (a[2] % 3) as usize],
                    _ => vec![2, 2],
                };
                let n: usize = ishape.iter().product();
                let seed = self.seed ^ a[3] as u32;
                let data: Vec<i64> = (0..n as u32)
                    .map(|i| {
                        let h = hash32(seed, i);
                        let v = (h % size as u32) as i64;
                        if h & 0x100 != 0 {
                            v - size
                        } else {
                            v
                        }
                    })
                    .collect();
                let ind = self.const_i64(&ishape, data);
                let mut shape = xv.shape[..axis].to_vec();
                shape.extend_from_slice(&ishape);
                shape.extend_from_slice(&xv.shape[axis + 1..]);
                self.node("Gather", &[x, ind], vec![("axis", Attr::Int(axis as i64))], vec![(xv.dtype, shape, xv.mag)]);
                true
            }
            Shape => {
                let Some(x) = self.pick_val(s0, |_| true) else { return false };
                let xv = self.vals[x].clone();
                let r = xv.shape.len();
                let maxd = xv.shape.iter().copied().max().unwrap_or(0) as f64;
                match a[0] % 4 {
                    0 => {
                        self.node("Size", &[x], vec![], vec![(DType::I64, vec![], xv.numel() as f64)]);
                    }
                    1 if r >= 1 => {
                        let start = idx(a[1], r);
                        let end = start + 1 + idx(a[2], r - start);
                        self.node(
                            "Shape",
                            &[x],
                            vec![("start", Attr::Int(start as i64)), ("end", Attr::Int(end as i64))],
                            vec![(DType::I64, vec![end - start], maxd)],
                        );
                    }
                    _ => {
                        self.node("Shape", &[x], vec![], vec![(DType::I64, vec![r], maxd)]);
                    }
                }
                true
            }
            ShapeArith => {
                // operate on an int64 vector/scalar (typically a Shape output)
                let Some(x) = self.pick_val(s0, |v| v.dtype == DType::I64 && v.shape.len() <= 1 && v.mag <= 1e4 && v.numel() > 0) else { return false };
                let xv = self.vals[x].clone();
                match a[0] % 5 {
                    0 if xv.shape.len() == 1 => {
                        let i = idx(a[1], xv.shape[0]) as i64;
                        let i = if a[2] & 1 == 1 { i - xv.shape[0] as i64 } else { i };
                        let ind = if a[3] & 1 == 0 { self.const_i64(&[], vec![i]) } else { self.const_i64(&[1], vec![i]) };
                        let shape = self.vals[ind].shape.clone();
                        self.node("Gather", &[x, ind], vec![("axis", Attr::Int(0))], vec![(DType::I64, shape, xv.mag)]);
                    }
                    1 if xv.shape.len() == 1 => {
                        let extra = self.const_i64_vec(&[1 + (a[1] % 3) as i64]);
                        let (p, q) = if a[2] & 1 == 0 { (x, extra) } else { (extra, x) };
                        self.node("Concat", &[p, q], vec![("axis", Attr::Int(0))], vec![(DType::I64, vec![xv.shape[0] + 1], xv.mag.max(3.0))]);
                    }
                    2 => {
                        let c = self.const_i64(&[], vec![1 + (a[1] % 3) as i64]);
                        let op = ["Add", "Sub", "Mul", "Div"][idx(a[2], 4)];
                        let (p, q) = if a[3] & 1 == 0 || op == "Div" { (x, c) } else { (c, x) };
                        self.node(op, &[p, q], vec![], vec![(DType::I64, xv.shape.clone(), xv.mag * 3.0 + 3.0)]);
                    }
                    3 => {
                        let c = self.const_i64(&[], vec![(a[1] % 4) as i64]);
                        self.node("Equal", &[x, c], vec![], vec![(DType::Bool, xv.shape.clone(), 1.0)]);
                    }
                    _ => {
                        self.node("Cast", &[x], vec![("to", Attr::Int(1))], vec![(DType::F32, xv.shape.clone(), xv.mag)]);
                    }
                }
                true
            }
            Pad => {
                let x = self.some_float(s0);
                let xv = self.vals[x].clone();
                let r = xv.shape.len();
                if r == 0 || r > 3 {
                    return false;
                }
                let modes = ["constant", "reflect", "edge"];
                let mut mode = modes[idx(a[1], 3)];
                // rten documents non-constant padding for the last two dims only
                let pads: Vec<i64> = (0..2 * r)
                    .map(|d| if mode != "constant" && r > 2 && d % r < r - 2 { 0 } else { ((a[0] >> (2 * d)) % 3) as i64 })
                    .collect();
                let shape: Vec<usize> = (0..r).map(|d| xv.shape[d] + pads[d] as usize + pads[d + r] as usize).collect();
                if mode == "reflect" && (0..r).any(|d| pads[d] as usize >= xv.shape[d] || pads[d + r] as usize >= xv.shape[d]) {
                    mode = "constant";
                }
                if mode == "edge" && xv.numel() == 0 {
                    mode = "constant";
                }
                let p = self.const_i64_vec(&pads);
                let mut ins = vec![x, p];
                if mode == "constant" && a[2] & 1 == 1 {
                    let cv = self.const_f32(&[], |_| 0.5);
                    ins.push(cv);
                }
                self.node("Pad", &ins, vec![("mode", Attr::Str(mode.into()))], vec![(DType::F32, shape, xv.mag.max(0.5))]);
                true
            }
            CumSum => {
                let x = self.some_float(s0);
                let xv = self.vals[x].clone();
                let r = xv.shape.len();
                if r == 0 {
                    return false;
                }
                let axis = idx(a[0], r) as i64;
                let axc = self.const_i64(&[], vec![if a[1] & 1 == 0 { axis } else { axis - r as i64 }]);
                let n = xv.shape[axis as usize].max(1) as f64;
                self.node(
                    "CumSum",
                    &[x, axc],
                    vec![("exclusive", Attr::Int(((a[2]) & 1) as i64)), ("reverse", Attr::Int(((a[2] >> 1) & 1) as i64))],
                    vec![(DType::F32, xv.shape.clone(), xv.mag * n)],
                );
                true
            }
            Conv => {
                let Some(x) = self.pick_val(s0, |v| Self::is_f(v) && v.shape.len() == 4 && v.mag <= 100.0 && v.shape.iter().all(|d| *d > 0)) else { return false };
                let xv = self.vals[x].clone();
                let (c, h, w) = (xv.shape[1], xv.shape[2], xv.shape[3]);
                let kh = 1 + idx(a[0], h.min(3));
                let kw = 1 + idx(a[1], w.min(3));
                let group = if c % 2 == 0 && a[2] % 3 == 0 { 2 } else { 1 };
                let m = group * (1 + (a[2] as usize >> 4) % 2);
                let pad = (a[3] % 2) as i64;
                let stride = 1 + ((a[3] >> 2) % 2) as i64;
                let seed = self.seed ^ a[0] as u32 ^ 0xC0;
                let wt = self.const_f32(&[m, c / group, kh, kw], |i| nice_f32(seed, i) * 0.25);
                let oh = (h as i64 + 2 * pad - kh as i64) / stride + 1;
                let ow = (w as i64 + 2 * pad - kw as i64) / stride + 1;
                if oh <= 0 || ow <= 0 {
                    return false;
                }
                let mut ins = vec![x, wt];
                let with_bias = (a[3] >> 4) % 3 == 0;
                if with_bias {
                    let b = self.const_f32(&[m], |i| nice_f32(seed ^ 9, i));
                    ins.push(b);
                }
                let shape = vec![xv.shape[0], m, oh as usize, ow as usize];
                let mag = xv.mag * (c * kh * kw) as f64 + 4.0;
                let out = self.node(
                    "Conv",
                    &ins,
                    vec![
                        ("group", Attr::Int(group as i64)),
                        ("kernel_shape", Attr::Ints(vec![kh as i64, kw as i64])),
                        ("pads", Attr::Ints(vec![pad, pad, pad, pad])),
                        ("strides", Attr::Ints(vec![stride, stride])),
                    ],
                    vec![(DType::F32, shape.clone(), mag)],
                )[0];
                if !with_bias && (a[3] >> 6) % 2 == 0 {
                    // Conv + Add(bias) fusion shape: bias [m,1,1]
                    let b = self.const_f32(&[m, 1, 1], |i| nice_f32(seed ^ 11, i));
                    self.node("Add", &[out, b], vec![], vec![(DType::F32, shape, mag + 4.0)]);
                }
                true
            }
            Pool => {
                let Some(x) = self.pick_val(s0, |v| Self::is_f(v) && v.shape.len() == 4 && v.mag <= TOO_BIG && v.shape.iter().all(|d| *d > 0)) else { return false };
                let xv = self.vals[x].clone();
                let (h, w) = (xv.shape[2], xv.shape[3]);
                match a[0] % 4 {
                    0 => {
                        self.node("GlobalAveragePool", &[x], vec![], vec![(DType::F32, vec![xv.shape[0], xv.shape[1], 1, 1], xv.mag)]);
                    }
                    1 => {
                        self.node("GlobalMaxPool", &[x], vec![], vec![(DType::F32, vec![xv.shape[0], xv.shape[1], 1, 1], xv.mag)]);
                    }
                    k => {
                        let kh = 1 + idx(a[1], h.min(2));
                        let kw = 1 + idx(a[2], w.min(2));
                        let shape = vec![xv.shape[0], xv.shape[1], h - kh + 1, w - kw + 1];
                        let op = if k == 2 { "MaxPool" } else { "AveragePool" };
                        self.node(op, &[x], vec![("kernel_shape", Attr::Ints(vec![kh as i64, kw as i64])), ("strides", Attr::Ints(vec![1, 1]))], vec![(DType::F32, shape, xv.mag)]);
                    }
                }
                true
            }
            Identity => {
                let Some(x) = self.pick_val(s0, |_| true) else { return false };
                let xv = self.vals[x].clone();
                let op = if a[0] % 3 == 0 && Self::is_f(&xv) { "Dropout" } else { "Identity" };
                self.node(op, &[x], vec![], vec![(xv.dtype, xv.shape, xv.mag)]);
                true
            }
            ConstantOfShape => {
                let Some(x) = self.pick_val(s0, |v| v.shape.len() <= 3 && v.numel() <= 64) else { return false };
                let xv = self.vals[x].clone();
                let r = xv.shape.len();
                let maxd = xv.shape.iter().copied().max().unwrap_or(0) as f64;
                let sh = self.node("Shape", &[x], vec![], vec![(DType::I64, vec![r], maxd)])[0];
                let val = TensorLit::f32(&[1], vec![(a[0] % 3) as f32]);
                self.node("ConstantOfShape", &[sh], vec![("value", Attr::Tensor(val))], vec![(DType::F32, xv.shape, 2.0)]);
                true
            }
            Random => {
                let ops = ["RandomUniform", "RandomNormal", "RandomUniformLike", "RandomNormalLike"];
                let op = ops[idx(a[0], 4)];
                // sometimes seeded (still must not be treated as a constant)
                let mut attrs: Vec<(&str, Attr)> = vec![];
                if a[1] % 2 == 0 {
                    attrs.push(("seed", Attr::Float((a[1] % 7) as f32)));
                }
                if op.ends_with("Like") {
                    let x = self.some_float(s0);
                    let shape = self.vals[x].shape.clone();
                    let name = self.vals[x].name.clone();
                    self.node_named(op, vec![name], attrs, vec![(DType::F32, shape, 8.0)], true);
                } else {
                    let shape: Vec<usize> = (0..(1 + a[2] % 2) as usize).map(|d| 1 + ((a[3] >> (2 * d)) % 3) as usize).collect();
                    attrs.push(("shape", Attr::Ints(shape.iter().map(|d| *d as i64).collect())));
                    self.node_named(op, vec![], attrs, vec![(DType::F32, shape, 8.0)], true);
                }
                true
            }
            other => self.apply_ext(other, raw),
        }
    }
}

mod ext;

fn dim_size(raw: u8, profile: &Profile) -> usize {
    // biased towards small sizes; 0 only when allowed
    let table: &[usize] = if profile.allow_empty_dims {
        &[1, 2, 3, 2, 3, 4, 1, 5, 2, 3, 4, 1, 2, 3, 0, 6]
    } else {
        &[1, 2, 3, 2, 3, 4, 1, 5, 2, 3, 4, 1, 2, 3, 4, 6]
    };
    table[(raw as usize * table.len()) >> 8].min(profile.max_dim.max(1))
}

/// Interpret the raw choices into a valid model plus conforming input data.
pub fn build(raw: &RawGraph, profile: &Profile) -> Built {
    let mut b = Builder {
        profile,
        seed: raw.data_seed as u32,
        vals: Vec::new(),
        nodes: Vec::new(),
        inits: Vec::new(),
        counter: 0,
    };
    let mut graph_inputs = Vec::new();
    let mut input_data = Vec::new();
    for (i, ri) in raw.inputs.iter().enumerate() {
        let dtype = match ri.dtype {
            0..=4 => DType::F32,
            5 => DType::I32,
            6 => DType::I64,
            _ => DType::Bool,
        };
        let rank = (ri.rank as usize).min(4);
        let mut shape: Vec<usize> = (0..rank).map(|d| dim_size(ri.dims[d], profile)).collect();
        if profile.big_dims {
            // raw values whose low bits are 0b111 select a large size (the small-size table only looks at the high bits)
            for d in 0..rank {
                if ri.dims[d] & 7 == 7 && shape[d] > 0 {
                    shape[d] = [7usize, 8, 16, 17, 32, 33, 9, 15][(ri.dims[d] as usize >> 3) % 8];
                }
            }
            while shape.iter().product::<usize>() > 4096 {
                let i = (0..rank).max_by_key(|d| shape[*d]).unwrap();
                shape[i] = (shape[i] / 2).max(1);
            }
        }
        let name = format!("in{i}");
        let dims: Vec<Dim> = shape
            .iter()
            .enumerate()
            .map(|(d, s)| {
                if (ri.sym >> d) & 1 == 1 {
                    if (ri.sym >> (4 + d)) & 1 == 1 {
                        Dim::Sym(format!("n{s}"))
                    } else {
                        Dim::Sym(format!("{name}_d{d}"))
                    }
                } else {
                    Dim::Fixed(*s as i64)
                }
            })
            .collect();
        graph_inputs.push(ValueInfo::new(&name, dtype, dims));
        let seed = b.seed ^ (0x1000 + i as u32);
        let (tv, mag) = match dtype {
            DType::F32 => (TVal::filled(dtype, &shape, |k| nice_f32(seed, k as u32) as f64), 4.0),
            DType::Bool => (TVal::filled(dtype, &shape, |k| (hash32(seed, k as u32) & 1) as f64), 1.0),
            _ => (TVal::filled(dtype, &shape, |k| nice_int(seed, k as u32) as f64), 4.0),
        };
        input_data.push((name.clone(), tv));
        b.add_val(&name, dtype, shape, mag, VKind::Input, false);
    }
    for rn in &raw.nodes {
        b.apply(rn);
    }
    // outputs: the last value plus selected extras (may be inputs or constants)
    let mut out_ids: Vec<usize> = vec![b.vals.len() - 1];
    for sel in &raw.outputs {
        let i = idx(*sel, b.vals.len());
        if !out_ids.contains(&i) {
            out_ids.push(i);
        }
    }
    let exact_out_shapes = raw.flags & 2 != 0;
    let outputs: Vec<ValueInfo> = out_ids
        .iter()
        .map(|i| {
            let v = &b.vals[*i];
            ValueInfo {
                name: v.name.clone(),
                dtype: Some(v.dtype),
                shape: if exact_out_shapes { Some(v.shape.iter().map(|d| Dim::Fixed(*d as i64)).collect()) } else { None },
            }
        })
        .collect();
    let mut value_info = Vec::new();
    if raw.flags & 1 != 0 {
        for v in b.vals.iter().filter(|v| v.kind == VKind::Inter) {
            if !out_ids.iter().any(|i| b.vals[*i].name == v.name) {
                value_info.push(ValueInfo::new(&v.name, v.dtype, v.shape.iter().map(|d| Dim::Fixed(*d as i64)).collect()));
            }
        }
    }
    let op_types = b.nodes.iter().map(|n| n.op.clone()).collect();
    let graph = GraphDef { nodes: b.nodes, initializers: b.inits, inputs: graph_inputs, outputs, value_info };
    Built {
        model: ModelDef::new(graph),
        inputs: input_data,
        outputs: out_ids.iter().map(|i| b.vals[*i].name.clone()).collect(),
        values: b.vals,
        op_types,
    }
}

/// A generated case: raw choices while searching, the built model once saved.
#[derive(Clone, Debug, PartialEq, Serialize, Deserialize)]
pub enum GraphCase {
    Raw(RawGraph),
    Fixed(Box<Built>),
}

impl GraphCase {
    pub fn build(&self, profile: &Profile) -> Built {
        match self {
            GraphCase::Raw(r) => build(r, profile),
            GraphCase::Fixed(b) => (**b).clone(),
        }
    }
    /// Self-contained form for replay files.
    pub fn export(&self, profile: &Profile) -> GraphCase {
        GraphCase::Fixed(Box::new(self.build(profile)))
    }
}

//! Loading and running generated models through rten's public API, and
//! comparing results.

use crate::model::DType;
use rten::{Model, ModelOptions, NodeId, RunError, RunOptions, ShapeInferenceMode, Value, ValueOrView};
use rten_tensor::prelude::*;
use rten_tensor::Tensor;
use serde::{Deserialize, Serialize};

/// A runtime tensor value in serialisable form (element types rten has at run time).
#[derive(Clone, Debug, PartialEq, Serialize, Deserialize)]
pub enum TVal {
    F32 { shape: Vec<usize>, data: Vec<f32> },
    I32 { shape: Vec<usize>, data: Vec<i32> },
    I8 { shape: Vec<usize>, data: Vec<i8> },
    U8 { shape: Vec<usize>, data: Vec<u8> },
    /// non-tensor outputs (sequences) are rendered, not compared element-wise
    Other(String),
}

impl TVal {
    pub fn shape(&self) -> &[usize] {
        match self {
            TVal::F32 { shape, .. } | TVal::I32 { shape, .. } | TVal::I8 { shape, .. } | TVal::U8 { shape, .. } => shape,
            TVal::Other(_) => &[],
        }
    }
    pub fn dtype_name(&self) -> &'static str {
        match self {
            TVal::F32 { .. } => "f32",
            TVal::I32 { .. } => "i32",
            TVal::I8 { .. } => "i8",
            TVal::U8 { .. } => "u8",
            TVal::Other(_) => "other",
        }
    }
    pub fn numel(&self) -> usize {
        self.shape().iter().product()
    }
    pub fn from_value(v: &Value) -> TVal {
        match v {
            Value::FloatTensor(t) => TVal::F32 { shape: t.shape().to_vec(), data: t.iter().copied().collect() },
            Value::Int32Tensor(t) => TVal::I32 { shape: t.shape().to_vec(), data: t.iter().copied().collect() },
            Value::Int8Tensor(t) => TVal::I8 { shape: t.shape().to_vec(), data: t.iter().copied().collect() },
            Value::UInt8Tensor(t) => TVal::U8 { shape: t.shape().to_vec(), data: t.iter().copied().collect() },
            other => TVal::Other(format!("{:?}", other)),
        }
    }
    pub fn to_value(&self) -> Value {
        match self {
            TVal::F32 { shape, data } => Value::FloatTensor(Tensor::from_data(shape, data.clone())),
            TVal::I32 { shape, data } => Value::Int32Tensor(Tensor::from_data(shape, data.clone())),
            TVal::I8 { shape, data } => Value::Int8Tensor(Tensor::from_data(shape, data.clone())),
            TVal::U8 { shape, data } => Value::UInt8Tensor(Tensor::from_data(shape, data.clone())),
            TVal::Other(s) => panic!("cannot convert {s} to a Value"),
        }
    }
    /// Zero/default-filled value of a runtime dtype.
    pub fn filled(dtype: DType, shape: &[usize], f: impl Fn(usize) -> f64) -> TVal {
        let n: usize = shape.iter().product();
        match dtype.runtime() {
            DType::F32 => TVal::F32 { shape: shape.to_vec(), data: (0..n).map(|i| f(i) as f32).collect() },
            DType::I32 => TVal::I32 { shape: shape.to_vec(), data: (0..n).map(|i| f(i) as i32).collect() },
            DType::I8 => TVal::I8 { shape: shape.to_vec(), data: (0..n).map(|i| f(i) as i8).collect() },
            DType::U8 => TVal::U8 { shape: shape.to_vec(), data: (0..n).map(|i| f(i) as u8).collect() },
            _ => unreachable!(),
        }
    }
}

#[derive(Clone, Copy, Debug, PartialEq, Eq, Hash, Serialize, Deserialize)]
pub enum Config {
    /// optimisation off
    Plain,
    OptInferOff,
    OptInferOn,
    OptInferStrict,
}

impl Config {
    pub const ALL: [Config; 4] = [Config::Plain, Config::OptInferOff, Config::OptInferOn, Config::OptInferStrict];
    pub fn name(self) -> &'static str {
        match self {
            Config::Plain => "opt-off",
            Config::OptInferOff => "opt-on/infer-off",
            Config::OptInferOn => "opt-on/infer-on",
            Config::OptInferStrict => "opt-on/infer-strict",
        }
    }
    pub fn options(self) -> ModelOptions {
        let mut o = ModelOptions::with_all_ops();
        match self {
            Config::Plain => {
                o.enable_optimization(false);
            }
            Config::OptInferOff => {
                o.enable_optimization(true).shape_inference(ShapeInferenceMode::Off);
            }
            Config::OptInferOn => {
                o.enable_optimization(true).shape_inference(ShapeInferenceMode::On);
            }
            Config::OptInferStrict => {
                o.enable_optimization(true).shape_inference(ShapeInferenceMode::Strict);
            }
        }
        o
    }
    pub fn load(self, bytes: &[u8]) -> Result<Model, String> {
        self.options().load(bytes.to_vec()).map_err(|e| format!("{e}"))
    }
}

pub fn node_id(model: &Model, name: &str) -> Result<NodeId, String> {
    model.node_id(name).map_err(|e| format!("node_id({name}): {e}"))
}

/// Run a model with named inputs/outputs. `owned[i]` says whether input i is
/// passed as an owned value (eligible for in-place use) or as a borrowed view.
pub fn run_named(
    model: &Model,
    inputs: &[(String, TVal)],
    outputs: &[String],
    owned: Option<&[bool]>,
    opts: Option<RunOptions>,
) -> Result<Vec<TVal>, String> {
    let values: Vec<Value> = inputs.iter().map(|(_, v)| v.to_value()).collect();
    let mut ins: Vec<(NodeId, ValueOrView)> = Vec::new();
    let mut owned_vals: Vec<Option<Value>> = values.iter().map(|_| None).collect();
    for (i, v) in values.iter().enumerate() {
        if owned.map(|o| o[i]).unwrap_or(false) {
            owned_vals[i] = Some(v.clone());
        }
    }
    for (i, (name, _)) in inputs.iter().enumerate() {
        let id = node_id(model, name)?;
        match owned_vals[i].take() {
            Some(v) => ins.push((id, ValueOrView::from(v))),
            None => ins.push((id, ValueOrView::from(&values[i]))),
        }
    }
    let outs: Vec<NodeId> = outputs.iter().map(|n| node_id(model, n)).collect::<Result<_, _>>()?;
    let res: Result<Vec<Value>, RunError> = model.run(ins, &outs, opts);
    match res {
        Ok(vs) => Ok(vs.iter().map(TVal::from_value).collect()),
        Err(e) => Err(format!("{e}")),
    }
}

#[derive(Clone, Copy, Debug)]
pub struct Tol {
    pub rtol: f32,
    pub atol: f32,
}

impl Tol {
    pub const EXACT: Tol = Tol { rtol: 0.0, atol: 0.0 };
}

/// Compare two values: shape and dtype exact, integers exact, floats within
/// tolerance with identical NaN positions and identical infinities.
pub fn compare(a: &TVal, b: &TVal, tol: Tol) -> Result<(), String> {
    if a.dtype_name() != b.dtype_name() {
        return Err(format!("dtype {} vs {}", a.dtype_name(), b.dtype_name()));
    }
    if a.shape() != b.shape() {
        return Err(format!("shape {:?} vs {:?}", a.shape(), b.shape()));
    }
    match (a, b) {
        (TVal::F32 { data: x, .. }, TVal::F32 { data: y, .. }) => {
            for (i, (p, q)) in x.iter().zip(y).enumerate() {
                if p.is_nan() || q.is_nan() {
                    if p.is_nan() != q.is_nan() {
                        return Err(format!("element {i}: {p} vs {q} (NaN position differs)"));
                    }
                    continue;
                }
                if p.is_infinite() || q.is_infinite() {
                    if p != q {
                        return Err(format!("element {i}: {p} vs {q}"));
                    }
                    continue;
                }
                if tol.rtol == 0.0 && tol.atol == 0.0 {
                    if p.to_bits() != q.to_bits() && !(*p == 0.0 && *q == 0.0) {
                        return Err(format!("element {i}: {p:e} vs {q:e} (bit-exact required)"));
                    }
                } else {
                    let d = (p - q).abs();
                    if d > tol.atol + tol.rtol * p.abs().max(q.abs()) {
                        return Err(format!("element {i}: {p:e} vs {q:e} (|diff| {d:e})"));
                    }
                }
            }
            Ok(())
        }
        (TVal::I32 { data: x, .. }, TVal::I32 { data: y, .. }) => first_diff(x, y),
        (TVal::I8 { data: x, .. }, TVal::I8 { data: y, .. }) => first_diff(x, y),
        (TVal::U8 { data: x, .. }, TVal::U8 { data: y, .. }) => first_diff(x, y),
        (TVal::Other(x), TVal::Other(y)) => {
            if x == y {
                Ok(())
            } else {
                Err(format!("non-tensor values differ: {x} vs {y}"))
            }
        }
        _ => unreachable!(),
    }
}

fn first_diff<T: PartialEq + std::fmt::Debug>(x: &[T], y: &[T]) -> Result<(), String> {
    for (i, (p, q)) in x.iter().zip(y).enumerate() {
        if p != q {
            return Err(format!("element {i}: {p:?} vs {q:?}"));
        }
    }
    Ok(())
}

/// Operator-name multiset of a loaded model's (top-level) graph.
pub fn op_multiset(model: &Model) -> std::collections::BTreeMap<String, usize> {
    let mut m = std::collections::BTreeMap::new();
    for (_, node) in model.verif_graph().iter() {
        if let Some(op) = node.as_operator() {
            *m.entry(op.operator().name().to_string()).or_insert(0) += 1;
        }
    }
    m
}

/// `+X` for operator kinds that the optimiser introduced or increased, `-Y`
/// for those it removed or decreased.
pub fn op_diff(base: &Model, opt: &Model) -> Vec<String> {
    let a = op_multiset(base);
    let b = op_multiset(opt);
    let mut out = Vec::new();
    for (k, n) in &b {
        if a.get(k).copied().unwrap_or(0) < *n {
            out.push(format!("+{k}"));
        }
    }
    for (k, n) in &a {
        if b.get(k).copied().unwrap_or(0) < *n {
            out.push(format!("-{k}"));
        }
    }
    out
}

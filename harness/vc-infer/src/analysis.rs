//! Graph-level oracle for C10.
//!
//! For one model (all named intermediate values made graph outputs, loaded
//! without optimisation):
//!
//!  * `infer_shapes(graph, opts)` — the driver under test — yields per value a
//!    `Shape::Constant`, a `Shape::Shape` (fixed dims and *names* of symbolic
//!    dims) and a type;
//!  * `replica_infer` repeats the driver's loop with the same operator
//!    `InferShapes` impls and the same constant-to-symbolic conversion but
//!    keeps the `SymTensor`s, so symbolic dimension expressions and symbolic
//!    element values can be evaluated with `SymExpr::eval`. The replica is
//!    only trusted for a value when its rendering equals the real driver's
//!    result for that value;
//!  * `exec_per_op` runs every operator with `Operator::run` on the concrete
//!    instantiation, tolerating failures (values downstream of a failed
//!    operator are simply absent);
//!  * `check_inst` compares.

use std::collections::{BTreeMap, BTreeSet, HashMap};

use rten::verif::graph::{Constant as GConst, Dimension, Graph, Node, TypedConstant};
use rten::verif::infer_shapes::{infer_shapes, InferResult, InferShapeOptions, Shape};
use rten::verif::operator::{InputList, OpRunContext};
use rten::{BufferPool, DataType, Model, NodeId, Value, ValueType, ValueView};
use rten_shape_inference::{Constant, InferShapesContext, SymExpr, SymTensor, Symbol, SymbolGen, SymbolMap};
use vc_onnxgen::model::{DType, Dim, ModelDef, ValueInfo};
use vc_onnxgen::{compare, run_named, Config, TVal, Tol};

use crate::{hash32, intern};

// ---------------------------------------------------------------------------
// Model preparation and instantiations
// ---------------------------------------------------------------------------

/// Every named operator output becomes a graph output (so that the driver's
/// plan covers every operator and every value can be requested); intermediate
/// `value_info` and output shapes are dropped (they were written for one
/// instantiation only).
pub fn all_outputs_model(model: &ModelDef) -> ModelDef {
    let mut m = model.clone();
    m.graph.value_info.clear();
    let mut outs: Vec<ValueInfo> = Vec::new();
    let mut seen = BTreeSet::new();
    for n in &m.graph.nodes {
        for o in &n.outputs {
            if !o.is_empty() && seen.insert(o.clone()) {
                outs.push(ValueInfo::untyped(o));
            }
        }
    }
    for o in &model.graph.outputs {
        if seen.insert(o.name.clone()) {
            outs.push(ValueInfo { name: o.name.clone(), dtype: o.dtype, shape: None });
        }
    }
    m.graph.outputs = outs;
    m
}

/// A concrete instantiation of the graph inputs.
#[derive(Clone, Debug)]
pub struct Inst {
    /// symbol name -> size
    pub assign: BTreeMap<String, i64>,
    pub inputs: Vec<(String, TVal)>,
    pub has_zero: bool,
}

/// The instantiation the generator produced the model for. Errors if the
/// supplied shapes contradict the declared dims (generator bug).
pub fn original_inst(model: &ModelDef, inputs: &[(String, TVal)]) -> Result<Inst, String> {
    let mut assign = BTreeMap::new();
    for vi in &model.graph.inputs {
        let Some((_, tv)) = inputs.iter().find(|(n, _)| *n == vi.name) else {
            return Err(format!("no data for input {}", vi.name));
        };
        let Some(dims) = &vi.shape else { continue };
        if dims.len() != tv.shape().len() {
            return Err(format!("input {} rank mismatch", vi.name));
        }
        for (d, s) in dims.iter().zip(tv.shape()) {
            match d {
                Dim::Fixed(f) => {
                    if *f != *s as i64 {
                        return Err(format!("input {} fixed dim mismatch", vi.name));
                    }
                }
                Dim::Sym(name) => {
                    if let Some(prev) = assign.insert(name.clone(), *s as i64) {
                        if prev != *s as i64 {
                            return Err(format!("symbol {name} has two sizes in the generated inputs"));
                        }
                    }
                }
            }
        }
    }
    let has_zero = inputs.iter().any(|(_, t)| t.shape().contains(&0));
    Ok(Inst { assign, inputs: inputs.to_vec(), has_zero })
}

const ALT_SIZES: [i64; 12] = [0, 1, 1, 2, 2, 3, 3, 4, 5, 6, 1, 2];

/// Another instantiation of the same model: every symbol gets a new size
/// (the same symbol the same size everywhere; 0 and 1 are frequent; about a
/// third of the symbols keep their original size so that fixed Reshape targets
/// etc. still fit), fixed dims stay, data is regenerated.
pub fn alternate_inst(model: &ModelDef, orig: &Inst, seed: u32) -> Inst {
    alternate_inst_sizes(model, orig, seed, &ALT_SIZES)
}

/// `alternate_inst` with a caller-supplied table of sizes.
pub fn alternate_inst_sizes(model: &ModelDef, orig: &Inst, seed: u32, sizes: &[i64]) -> Inst {
    let mut assign = BTreeMap::new();
    for (i, (name, size)) in orig.assign.iter().enumerate() {
        let h = hash32(seed, i as u32);
        let v = if h % 3 == 0 { *size } else { sizes[((h >> 8) % sizes.len() as u32) as usize] };
        assign.insert(name.clone(), v);
    }
    let mut inputs = Vec::new();
    for (k, vi) in model.graph.inputs.iter().enumerate() {
        let (_, otv) = orig.inputs.iter().find(|(n, _)| *n == vi.name).expect("input data");
        let shape: Vec<usize> = match &vi.shape {
            Some(dims) => dims
                .iter()
                .map(|d| match d {
                    Dim::Fixed(f) => *f as usize,
                    Dim::Sym(n) => assign[n] as usize,
                })
                .collect(),
            None => otv.shape().to_vec(),
        };
        let s = hash32(seed ^ 0xDA7A, k as u32);
        let dtype = vi.dtype.unwrap_or(match otv {
            TVal::F32 { .. } => DType::F32,
            TVal::I8 { .. } => DType::I8,
            TVal::U8 { .. } => DType::U8,
            _ => DType::I32,
        });
        let tv = match dtype {
            DType::F32 | DType::F64 => TVal::filled(dtype, &shape, |i| ((hash32(s, i as u32) % 33) as i32 - 16) as f64 * 0.25),
            DType::Bool => TVal::filled(dtype, &shape, |i| (hash32(s, i as u32) & 1) as f64),
            DType::U8 => TVal::filled(dtype, &shape, |i| (hash32(s, i as u32) % 5) as f64),
            _ => TVal::filled(dtype, &shape, |i| (hash32(s, i as u32) % 9) as f64 - 4.0),
        };
        inputs.push((vi.name.clone(), tv));
    }
    let has_zero = inputs.iter().any(|(_, t)| t.shape().contains(&0));
    Inst { assign, inputs, has_zero }
}

// ---------------------------------------------------------------------------
// Per-operator execution
// ---------------------------------------------------------------------------

pub struct Exec {
    pub values: BTreeMap<NodeId, TVal>,
    pub ops_run: usize,
    pub ops_failed: usize,
    pub ops_panicked: usize,
}

/// Operators of the graph in the driver's plan order.
pub fn plan(graph: &Graph) -> Result<Vec<NodeId>, String> {
    graph
        .execution_plan(graph.input_ids(), graph.output_ids(), Default::default())
        .map_err(|e| format!("plan: {e}"))
}

pub fn exec_per_op(graph: &Graph, order: &[NodeId], inputs: &[(String, TVal)]) -> Result<Exec, String> {
    let mut values: BTreeMap<NodeId, Value> = BTreeMap::new();
    for (name, v) in inputs {
        let id = graph.get_node_id(name).ok_or_else(|| format!("no node {name}"))?;
        values.insert(id, v.to_value());
    }
    let mut ex = Exec { values: BTreeMap::new(), ops_run: 0, ops_failed: 0, ops_panicked: 0 };
    for op_id in order {
        let Some(Node::Operator(op_node)) = graph.get_node(*op_id) else { continue };
        if op_node.operator().as_subgraph_op().is_some() {
            ex.ops_failed += 1;
            continue;
        }
        let ready = op_node.input_ids().iter().flatten().all(|i| match graph.get_node(*i) {
            Some(Node::Constant(_)) => true,
            _ => values.contains_key(i),
        });
        if !ready {
            ex.ops_failed += 1;
            continue;
        }
        let views: Vec<Option<ValueView>> = op_node
            .input_ids()
            .iter()
            .map(|i| {
                i.map(|id| match graph.get_node(id) {
                    Some(Node::Constant(c)) => c.as_view(),
                    _ => values[&id].as_view(),
                })
            })
            .collect();
        let pool = BufferPool::new();
        let input_list = InputList::from_optional(&views);
        let ctx = OpRunContext::new(&pool, &input_list, op_node.output_mask());
        // An operator that panics is a failed execution as far as C10 is
        // concerned (operator panics are the subject of other properties).
        let res = vcore::catch(|| op_node.operator().run(&ctx));
        drop(input_list);
        drop(views);
        match res {
            Ok(Ok(outs)) => {
                ex.ops_run += 1;
                // outputs are positional (the executor zips them with output_ids)
                for (oid, v) in op_node.output_ids().iter().zip(outs) {
                    if let Some(oid) = oid {
                        values.insert(*oid, v);
                    }
                }
            }
            Ok(Err(_)) => ex.ops_failed += 1,
            Err(_) => ex.ops_panicked += 1,
        }
    }
    for op_id in order {
        let Some(Node::Operator(op_node)) = graph.get_node(*op_id) else { continue };
        for oid in op_node.output_ids().iter().flatten() {
            if let Some(v) = values.get(oid) {
                ex.values.insert(*oid, TVal::from_value(v));
            }
        }
    }
    Ok(ex)
}

// ---------------------------------------------------------------------------
// Replica of the graph driver
// ---------------------------------------------------------------------------

fn f32_to_int_checked(x: f32) -> Option<i32> {
    if x.is_finite() && x.fract() == 0.0 && x >= (i32::MIN as f32) && x < (i32::MAX as f32) {
        Some(x as i32)
    } else {
        None
    }
}

fn const_to_sym_scalar(c: &GConst) -> Option<SymExpr> {
    let iv: Option<i32> = c.as_scalar();
    if let Some(v) = iv {
        return Some(SymExpr::Value(v));
    }
    let fv: Option<f32> = c.as_scalar();
    fv.and_then(f32_to_int_checked).map(SymExpr::Value)
}

fn const_to_sym_vector(c: &GConst) -> Option<Vec<SymExpr>> {
    let iv: Option<&[i32]> = c.as_vector();
    if let Some(iv) = iv {
        return Some(iv.iter().copied().map(SymExpr::Value).collect());
    }
    let fv: Option<&[f32]> = c.as_vector();
    if let Some(fv) = fv {
        return fv.iter().map(|&f| f32_to_int_checked(f).map(SymExpr::Value)).collect();
    }
    None
}

fn sym_tensor_from_input(id: NodeId, node: &Node, values: &HashMap<NodeId, SymTensor>) -> SymTensor {
    match node {
        Node::Constant(c) => {
            if let Some(s) = const_to_sym_scalar(c).filter(|_| c.ndim() == 0) {
                SymTensor::from_scalar(s)
            } else if let Some(v) = const_to_sym_vector(c) {
                SymTensor::from_vec(v)
            } else {
                SymTensor::from_fixed_shape(c.shape())
            }
        }
        Node::Value(val) => {
            if let Some(t) = values.get(&id) {
                t.clone()
            } else if let Some(shape) = val.shape() {
                SymTensor::from_shape(
                    shape
                        .iter()
                        .map(|d| match d {
                            Dimension::Symbolic(name) => {
                                SymExpr::Var(Symbol { name: name.clone(), positive: true, synthetic: false }.into())
                            }
                            Dimension::Fixed(s) => SymExpr::Value(*s as i32),
                        })
                        .collect(),
                )
            } else {
                SymTensor::unknown("unknown value shape")
            }
        }
        Node::Operator(_) => unreachable!(),
    }
}

/// The driver's loop with the expressions kept (non-strict mode).
///
/// `float_types`: the driver (since /repo f436bb9) keeps only the shape of an
/// output whose inferred type is float. The types are taken from the real
/// driver's own result (`InferResult::types` is the map it consults), so the
/// replica applies exactly the same rule to exactly the same values. `None`
/// mirrors a driver without that rule.
pub fn replica_infer(graph: &Graph, order: &[NodeId], max_complexity: u32, float_types: Option<&HashMap<NodeId, ValueType>>) -> HashMap<NodeId, SymTensor> {
    let mut sym_gen = SymbolGen::new();
    let mut values: HashMap<NodeId, SymTensor> = HashMap::new();
    for op_id in order {
        let Some(Node::Operator(op)) = graph.get_node(*op_id) else { continue };
        let Some(infer) = op.operator().as_infer_shapes() else { continue };
        let input_shapes: Vec<Option<SymTensor>> = op
            .input_ids()
            .iter()
            .map(|i| i.and_then(|id| graph.get_node(id).map(|n| sym_tensor_from_input(id, n, &values))))
            .collect();
        if let Ok(outs) = infer.infer_shapes(InferShapesContext::new(&input_shapes), &mut sym_gen) {
            for (oid, t) in op.output_ids().iter().zip(outs) {
                let Some(oid) = oid else { continue };
                let is_float = matches!(float_types.and_then(|m| m.get(oid)), Some(ValueType::Tensor(DataType::Float)));
                let float_dims: Option<Vec<SymExpr>> = if is_float && t.values().is_some() { t.shape().map(|d| d.collect()) } else { None };
                let mut t = match float_dims {
                    Some(dims) => SymTensor::from_shape(dims),
                    None => t,
                };
                t.replace_complex_expressions(max_complexity, &mut sym_gen);
                values.insert(*oid, t.simplify());
            }
        }
    }
    values
}

/// What the real driver would report for a replica value.
#[derive(Debug, PartialEq)]
enum Rendered {
    Constant(Constant),
    Shape(Vec<Result<usize, String>>),
    Nothing,
}

fn render_replica(t: &SymTensor) -> Rendered {
    if let Some(c) = t.to_constant() {
        Rendered::Constant(c)
    } else if let Some(dims) = t.shape() {
        Rendered::Shape(
            dims.map(|d| match d {
                SymExpr::Value(v) if v >= 0 => Ok(v as usize),
                d => Err(d.to_string()),
            })
            .collect(),
        )
    } else {
        Rendered::Nothing
    }
}

fn render_real(res: &InferResult, id: NodeId) -> Rendered {
    match res.shapes.get(&id) {
        None => Rendered::Nothing,
        Some(Shape::Constant { index }) => Rendered::Constant(res.constants[*index].clone()),
        Some(Shape::Shape(dims)) => Rendered::Shape(
            dims.iter()
                .map(|d| match d {
                    Dimension::Fixed(v) => Ok(*v),
                    Dimension::Symbolic(s) => Err(s.clone()),
                })
                .collect(),
        ),
    }
}

// ---------------------------------------------------------------------------
// Comparison
// ---------------------------------------------------------------------------

#[derive(Clone, Debug)]
pub struct Violation {
    pub sig: String,
    pub detail: String,
}

#[derive(Default)]
pub struct Report {
    pub violations: Vec<Violation>,
    pub nontrivial: bool,
    pub labels: BTreeSet<&'static str>,
}

impl Report {
    pub fn label(&mut self, s: &str) {
        self.labels.insert(intern(s));
    }
    pub fn fail(&mut self, sig: String, detail: String) {
        self.violations.push(Violation { sig, detail });
    }
}

fn is_ident(s: &str) -> bool {
    !s.is_empty() && s.chars().all(|c| c.is_ascii_alphanumeric() || c == '_') && !s.chars().next().unwrap().is_ascii_digit()
}

fn expr_kind(e: &SymExpr) -> &'static str {
    match e {
        SymExpr::Value(_) => "Value",
        SymExpr::Var(_) => "Var",
        SymExpr::Add(..) => "Add",
        SymExpr::Sub(..) => "Sub",
        SymExpr::Mul(..) => "Mul",
        SymExpr::Div(..) => "Div",
        SymExpr::DivCeil(..) => "DivCeil",
        SymExpr::Max(..) => "Max",
        SymExpr::Min(..) => "Min",
        SymExpr::Broadcast(..) => "Broadcast",
        SymExpr::Neg(_) => "Neg",
    }
}

fn dtype_name(d: DataType) -> &'static str {
    match d {
        DataType::Float => "f32",
        DataType::Int32 => "i32",
        DataType::Int8 => "i8",
        DataType::UInt8 => "u8",
        _ => "other",
    }
}

/// Elements of a runtime tensor as exact integers where they are integers.
fn elems_i64(t: &TVal) -> Option<Vec<Option<i64>>> {
    Some(match t {
        TVal::F32 { data, .. } => data.iter().map(|v| if v.is_finite() && v.fract() == 0.0 && v.abs() < 9.0e15 { Some(*v as i64) } else { None }).collect(),
        TVal::I32 { data, .. } => data.iter().map(|v| Some(*v as i64)).collect(),
        TVal::I8 { data, .. } => data.iter().map(|v| Some(*v as i64)).collect(),
        TVal::U8 { data, .. } => data.iter().map(|v| Some(*v as i64)).collect(),
        TVal::Other(_) => return None,
    })
}

pub fn eval_expr(e: &SymExpr, env: &BTreeMap<String, i64>) -> Option<i64> {
    let pairs: Vec<(&str, i32)> = env.iter().filter(|(_, v)| **v >= i32::MIN as i64 && **v <= i32::MAX as i64).map(|(k, v)| (k.as_str(), *v as i32)).collect();
    let map = SymbolMap::new(&pairs);
    // eval uses plain i32 arithmetic: an overflow panic (checked builds) means
    // "does not evaluate", not a contradiction.
    match vcore::catch(|| e.eval(&map)) {
        Ok(Ok(v)) => Some(v as i64),
        _ => None,
    }
}

/// Evaluation in i64 with the *documented* meaning of `Broadcast` (operands
/// are >= 0 and equal, or one of them is 1: the result is the other one).
/// Used only to classify a mismatch of `SymExpr::eval`, which implements
/// Broadcast as `max` and is therefore wrong for the pair (0, 1).
pub fn eval_documented(e: &SymExpr, env: &BTreeMap<String, i64>) -> Option<i64> {
    eval_ref(e, env, false)
}

/// `floor_div`: evaluate `Div` as flooring division (what the doc comment of
/// `SymExpr::Div` says) instead of the truncating division `eval` performs.
pub fn eval_ref(e: &SymExpr, env: &BTreeMap<String, i64>, floor_div: bool) -> Option<i64> {
    let eval_documented = |e: &SymExpr, env: &BTreeMap<String, i64>| eval_ref(e, env, floor_div);
    let bin = |a: &SymExpr, b: &SymExpr| Some((eval_documented(a, env)?, eval_documented(b, env)?));
    Some(match e {
        SymExpr::Value(v) => *v as i64,
        SymExpr::Var(s) => *env.get(&s.name)?,
        SymExpr::Neg(a) => -eval_documented(a, env)?,
        SymExpr::Add(a, b) => {
            let (x, y) = bin(a, b)?;
            x + y
        }
        SymExpr::Sub(a, b) => {
            let (x, y) = bin(a, b)?;
            x - y
        }
        SymExpr::Mul(a, b) => {
            let (x, y) = bin(a, b)?;
            x.checked_mul(y)?
        }
        SymExpr::Div(a, b) => {
            let (x, y) = bin(a, b)?;
            if y == 0 {
                return None;
            }
            if floor_div {
                x.div_euclid(y) - if y < 0 && x.rem_euclid(y) != 0 { 1 } else { 0 }
            } else {
                x / y
            }
        }
        SymExpr::DivCeil(a, b) => {
            let (x, y) = bin(a, b)?;
            if y == 0 {
                return None;
            }
            let d = x / y;
            if x % y != 0 && ((x < 0) == (y < 0)) {
                d + 1
            } else {
                d
            }
        }
        SymExpr::Max(a, b) => {
            let (x, y) = bin(a, b)?;
            x.max(y)
        }
        SymExpr::Min(a, b) => {
            let (x, y) = bin(a, b)?;
            x.min(y)
        }
        SymExpr::Broadcast(a, b) => {
            let (x, y) = bin(a, b)?;
            if x == 1 {
                y
            } else {
                x
            }
        }
    })
}

fn has_broadcast(e: &SymExpr) -> bool {
    e.iter().any(|n| matches!(n, SymExpr::Broadcast(..)))
}

/// Signature of an expression-evaluation mismatch.
fn expr_sig(clause: &str, op_name: &str, e: &SymExpr, actual: i64, env: &BTreeMap<String, i64>, special: Option<String>) -> String {
    if let Some(s) = special {
        return s;
    }
    if has_broadcast(e) && eval_documented(e, env) == Some(actual) {
        return "eval:Broadcast:zero-vs-one".to_string();
    }
    // `Div` is documented as flooring division but `eval` truncates: they
    // differ for a negative numerator (e.g. `(in + pad - 1) / stride` for an
    // empty input)
    if e.iter().any(|n| matches!(n, SymExpr::Div(..))) && eval_ref(e, env, true) == Some(actual) {
        return "eval:Div:negative-numerator-truncates".to_string();
    }
    // a size expression that goes negative where the operator produces an
    // empty dimension: the expression lacks the clamp at 0
    if clause == "dim-expr" && actual == 0 && eval_expr(e, env).map(|v| v < 0).unwrap_or(false) {
        return format!("dim-negative:{op_name}");
    }
    format!("{clause}:{op_name}:{}", expr_kind(e))
}

pub struct GraphFacts<'a> {
    pub graph: &'a Graph,
    pub order: &'a [NodeId],
    pub real: &'a InferResult,
    pub replica: &'a HashMap<NodeId, SymTensor>,
    /// which driver options produced `real` (for messages/labels)
    pub mode: &'static str,
    /// operator-level layer: every operator was inferred on its own, so a
    /// violation at one operator says nothing about its consumers
    pub independent_ops: bool,
}

fn shape_of(graph: &Graph, ex: &Exec, inputs: &BTreeMap<NodeId, Vec<usize>>, id: NodeId) -> Option<Vec<usize>> {
    if let Some(t) = ex.values.get(&id) {
        return Some(t.shape().to_vec());
    }
    if let Some(s) = inputs.get(&id) {
        return Some(s.clone());
    }
    match graph.get_node(id) {
        Some(Node::Constant(c)) => Some(c.shape().to_vec()),
        _ => None,
    }
}

/// Compare inferred facts with the executed values of one instantiation.
/// Returns the set of values that violate or descend from a violating value.
pub fn check_inst(f: &GraphFacts, ex: &Exec, inst: &Inst, rep: &mut Report) -> BTreeSet<NodeId> {
    let g = f.graph;
    let mut env: BTreeMap<String, i64> = inst.assign.clone();
    let mut expr_names: BTreeMap<String, i64> = BTreeMap::new();
    let mut tainted: BTreeSet<NodeId> = BTreeSet::new();
    let input_shapes: BTreeMap<NodeId, Vec<usize>> =
        inst.inputs.iter().filter_map(|(n, t)| g.get_node_id(n).map(|id| (id, t.shape().to_vec()))).collect();
    let input_values: BTreeMap<NodeId, &TVal> = inst.inputs.iter().filter_map(|(n, t)| g.get_node_id(n).map(|id| (id, t))).collect();
    let assign_txt = format!("{:?}", inst.assign);

    for op_id in f.order {
        let Some(Node::Operator(op)) = g.get_node(*op_id) else { continue };
        let op_name = op.operator().name().to_string();
        let tainted_in = !f.independent_ops && op.input_ids().iter().flatten().any(|i| tainted.contains(i));
        for oid in op.output_ids().iter().flatten() {
            let oid = *oid;
            if tainted_in {
                tainted.insert(oid);
            }
            let Some(actual) = ex.values.get(&oid) else { continue };
            let vname = g.node_name(oid);
            let mut local: Vec<Violation> = Vec::new();
            let mut pending_expr_names: BTreeMap<String, i64> = BTreeMap::new();
            let mut checked_fixed = false;

            // Precise signature for the known Pow defect (C15): the output keeps
            // the base's shape when the exponent has one element but more dims.
            let const_i32 = |i: Option<NodeId>| -> Option<Vec<i32>> {
                match g.get_node(i?) {
                    Some(Node::Constant(c)) => {
                        let v: Option<&[i32]> = c.as_vector();
                        v.map(|v| v.to_vec())
                    }
                    _ => None,
                }
            };
            // Root-cause signatures for value clauses (constant / symbolic values).
            let value_sig = |clause: &str, dt: &str| -> Option<String> {
                if op_name == "Where" {
                    let ins: Vec<Option<Vec<usize>>> = op.input_ids().iter().map(|i| i.and_then(|i| shape_of(g, ex, &input_shapes, i))).collect();
                    if ins.len() == 3 && ins.iter().all(|s| s.as_ref().map(|s| s.is_empty()).unwrap_or(false)) {
                        return Some("shape:Where:all-scalar-inputs".to_string());
                    }
                    if let Some(Some(cid)) = op.input_ids().first() {
                        let cond = match g.get_node(*cid) {
                            Some(Node::Constant(c)) => Some(TVal::from_value(&c.as_view().to_owned())),
                            _ => ex.values.get(cid).cloned().or_else(|| input_values.get(cid).map(|t| (*t).clone())),
                        };
                        if let Some(vals) = cond.as_ref().and_then(elems_i64) {
                            if vals.iter().any(|v| !matches!(v, Some(0) | Some(1))) {
                                return Some("value:Where:cond-not-0-or-1".to_string());
                            }
                        }
                    }
                }
                if op_name == "Div" && dt == "f32" && clause != "shape" {
                    return Some("constant:Div:f32".to_string());
                }
                None
            };
            // MaxPool / AveragePool in ceil mode: the operator drops at most one
            // trailing window that starts beyond the input and its start padding;
            // inference excludes all of them. They differ when the end padding
            // makes two or more windows start there. Recognised from the executed
            // result: its last window starts at or beyond in + pad_start.
            let pool_special: Option<String> = if op_name == "MaxPool" || op_name == "AveragePool" {
                let dbg = format!("{:?}", op.operator());
                let list = |key: &str| -> Option<Vec<usize>> {
                    let i = dbg.find(key)? + key.len();
                    let j = dbg[i..].find(']')? + i;
                    Some(dbg[i..j].split(',').filter_map(|x| x.trim().parse().ok()).collect())
                };
                let strides = list("strides: [");
                let pads = list("padding: Fixed([");
                let in_shape = op.input_ids().first().copied().flatten().and_then(|i| shape_of(g, ex, &input_shapes, i));
                match (dbg.contains("ceil_mode: true"), strides, pads, in_shape) {
                    (true, Some(st), Some(pd), Some(ish)) if ish.len() >= 3 && st.len() == ish.len() - 2 && pd.len() == 2 * st.len() && actual.shape().len() == ish.len() => {
                        let hit = (0..st.len()).any(|d| {
                            let out = actual.shape()[2 + d];
                            out >= 1 && (out - 1) * st[d] >= ish[2 + d] + pd[d]
                        });
                        // empty input and no start padding: the bound (in + pad_start - 1) / stride
                        // has the numerator -1 (folded with truncating division for fixed sizes)
                        let empty = (0..st.len()).any(|d| ish[2 + d] + pd[d] == 0 && actual.shape()[2 + d] == 0);
                        if hit {
                            Some("shape:Pool:ceil_mode-window-entirely-in-end-padding".to_string())
                        } else if empty {
                            Some("eval:Div:negative-numerator-truncates".to_string())
                        } else {
                            None
                        }
                    }
                    _ => None,
                }
            } else {
                None
            };
            let shape_sig = |clause: &str| -> String {
                if let Some(s) = &pool_special {
                    if clause != "rank" {
                        return s.clone();
                    }
                }
                if let Some(s) = value_sig("shape", "") {
                    if s.starts_with("shape:") {
                        return s;
                    }
                }
                if op_name == "Reshape" && clause != "rank" {
                    // ONNX Reshape (allowzero=0): a 0 in the shape input copies the
                    // input dim. When the 0 is the run-time value of a symbolic size,
                    // inference has used the symbol as the size.
                    if let Some(Some(sid)) = op.input_ids().get(1) {
                        let cval = match g.get_node(*sid) {
                            Some(Node::Constant(c)) => Some(TVal::from_value(&c.as_view().to_owned())),
                            _ => None,
                        };
                        let zero_at_runtime = match (cval.as_ref(), ex.values.get(sid), input_values.get(sid).copied()) {
                            (Some(t), _, _) | (None, Some(t), _) | (None, None, Some(t)) => elems_i64(t).map(|v| v.contains(&Some(0)) || v.contains(&Some(-1))).unwrap_or(false),
                            _ => false,
                        };
                        let is_const = matches!(g.get_node(*sid), Some(Node::Constant(_)));
                        if zero_at_runtime && (!is_const || f.independent_ops) {
                            return "shape:Reshape:symbolic-size-is-0-or-minus-1-at-run-time".to_string();
                        }
                    }
                }
                if op_name == "Slice" {
                    let ins = op.input_ids();
                    let ends = ins.get(2).and_then(|i| const_i32(*i));
                    let steps = ins.get(4).and_then(|i| const_i32(*i));
                    if let (Some(ends), Some(steps)) = (ends, steps) {
                        if ends.iter().zip(&steps).any(|(e, s)| *e == i32::MAX && *s < 0) {
                            return "shape:Slice:negative-step-end-INT_MAX".to_string();
                        }
                    }
                }
                if op_name == "Pow" {
                    let ins: Vec<Option<Vec<usize>>> = op.input_ids().iter().map(|i| i.and_then(|i| shape_of(g, ex, &input_shapes, i))).collect();
                    if let [Some(b), Some(e)] = ins.as_slice() {
                        if e.iter().product::<usize>() == 1 && e.len() > b.len() {
                            return "shape:Pow:one-element-exponent-of-higher-rank".to_string();
                        }
                    }
                }
                format!("{clause}:{op_name}")
            };
            let ctx = |what: String| -> String {
                let ins: Vec<String> = op
                    .input_ids()
                    .iter()
                    .map(|i| match i {
                        None => "-".to_string(),
                        Some(i) => {
                            let sh = shape_of(g, ex, &input_shapes, *i);
                            let val = match (g.get_node(*i), ex.values.get(i)) {
                                (Some(Node::Constant(c)), _) if c.shape().iter().product::<usize>() <= 6 => format!("={:?}", TVal::from_value(&c.as_view().to_owned())),
                                (_, Some(t)) if t.numel() <= 6 => format!("={t:?}"),
                                _ => String::new(),
                            };
                            format!("{}:{:?}{}", g.node_name(*i), sh, val)
                        }
                    })
                    .collect();
                format!("[{}] value {vname} = {op_name}({}) with {assign_txt}: {what}", f.mode, ins.join(", "))
            };

            // --- types
            if let Some(vt) = f.real.types.get(&oid) {
                let act = match actual {
                    TVal::F32 { .. } => Some(DataType::Float),
                    TVal::I32 { .. } => Some(DataType::Int32),
                    TVal::I8 { .. } => Some(DataType::Int8),
                    TVal::U8 { .. } => Some(DataType::UInt8),
                    TVal::Other(_) => None,
                };
                match (vt, act) {
                    (ValueType::Tensor(d), Some(a)) => {
                        if *d != a {
                            local.push(Violation {
                                sig: format!("dtype:{op_name}"),
                                detail: ctx(format!("inferred type tensor({}) but execution produced {}", dtype_name(*d), dtype_name(a))),
                            });
                        } else {
                            rep.label("checked:dtype");
                        }
                    }
                    (ValueType::Sequence(_), Some(a)) => local.push(Violation {
                        sig: format!("dtype:{op_name}"),
                        detail: ctx(format!("inferred a sequence type but execution produced a {} tensor", dtype_name(a))),
                    }),
                    (ValueType::Tensor(d), None) => local.push(Violation {
                        sig: format!("dtype:{op_name}"),
                        detail: ctx(format!("inferred tensor({}) but execution produced a non-tensor", dtype_name(*d))),
                    }),
                    _ => {}
                }
            }

            if let TVal::Other(_) = actual {
                // sequences have no shape to compare
            } else {
                let ashape = actual.shape().to_vec();
                let real = render_real(f.real, oid);
                match &real {
                    Rendered::Nothing => {}
                    Rendered::Constant(c) => {
                        let want_shape: Vec<usize> = match c {
                            Constant::Scalar(_) => vec![],
                            Constant::Vector(v) => vec![v.len()],
                        };
                        let dt = actual.dtype_name();
                        if want_shape != ashape {
                            local.push(Violation {
                                sig: value_sig("shape", dt).unwrap_or(format!("constant-shape:{op_name}")),
                                detail: ctx(format!("inferred constant {c:?} (shape {want_shape:?}) but execution produced shape {ashape:?}")),
                            });
                        } else {
                            let got = elems_i64(actual).unwrap();
                            let want: Vec<i64> = c.values().iter().map(|v| *v as i64).collect();
                            let neg_zero = match actual {
                                TVal::F32 { data, .. } => data.iter().zip(&want).any(|(a, w)| *w == 0 && *a == 0.0 && a.is_sign_negative()),
                                _ => false,
                            };
                            if neg_zero {
                                // numerically equal, but the substituted +0.0 changes e.g. 1/x
                                local.push(Violation {
                                    sig: "constant:f32:negative-zero".to_string(),
                                    detail: ctx(format!("inferred constant {c:?} (the optimiser substitutes +0.0) but execution produced {actual:?} (-0.0)")),
                                });
                            } else if got.iter().zip(&want).any(|(g, w)| *g != Some(*w)) {
                                local.push(Violation {
                                    sig: value_sig("constant", dt).unwrap_or(format!("constant:{op_name}:{dt}")),
                                    detail: ctx(format!("inferred constant {c:?} (the optimiser substitutes it) but execution produced {actual:?}")),
                                });
                            } else {
                                checked_fixed = true;
                                rep.label("checked:constant");
                                rep.label(&format!("constant-of:{op_name}"));
                                if dt == "f32" {
                                    rep.label("checked:constant-f32");
                                }
                            }
                        }
                    }
                    Rendered::Shape(dims) => {
                        if dims.len() != ashape.len() {
                            local.push(Violation {
                                sig: shape_sig("rank"),
                                detail: ctx(format!("inferred shape {dims:?} (rank {}) but execution produced shape {ashape:?}", dims.len())),
                            });
                        } else {
                            rep.label("checked:rank");
                            for (k, (d, a)) in dims.iter().zip(&ashape).enumerate() {
                                match d {
                                    Ok(v) => {
                                        if v != a {
                                            local.push(Violation {
                                                sig: shape_sig("dim-fixed"),
                                                detail: ctx(format!("inferred shape {dims:?}: dim {k} is fixed {v} but execution produced shape {ashape:?}")),
                                            });
                                        } else {
                                            checked_fixed = true;
                                            rep.label("checked:fixed-dim");
                                        }
                                    }
                                    Err(name) if is_ident(name) => match env.get(name) {
                                        Some(prev) if *prev != *a as i64 => {
                                            let kind = if inst.assign.contains_key(name) { "dim-symbol" } else { "dim-synthetic-symbol" };
                                            local.push(Violation {
                                                sig: {
                                                    let ss = shape_sig(kind);
                                                    if !ss.starts_with("shape:") && *prev < 0 && *a == 0 {
                                                        format!("dim-negative:{op_name}")
                                                    } else {
                                                        ss
                                                    }
                                                },
                                                detail: ctx(format!("inferred shape {dims:?}: dim {k} is symbol {name} which has size {prev} elsewhere, but execution produced shape {ashape:?}")),
                                            });
                                        }
                                        Some(_) => {
                                            checked_fixed = true;
                                            rep.label("checked:symbol-dim");
                                        }
                                        None => {
                                            env.insert(name.clone(), *a as i64);
                                        }
                                    },
                                    // bindings made by this value are only published (below) if the
                                    // value itself turns out consistent: a value already in violation
                                    // (e.g. a known Reshape finding) must not be blamed on its neighbours
                                    Err(name) => match expr_names.get(name).or_else(|| pending_expr_names.get(name)) {
                                        Some(prev) if *prev != *a as i64 => local.push(Violation {
                                            sig: shape_sig("dim-expr-name"),
                                            detail: ctx(format!("dim {k} is named `{name}`, which named a dim of size {prev} elsewhere, but here execution produced shape {ashape:?}")),
                                        }),
                                        Some(_) => {}
                                        None => {
                                            pending_expr_names.insert(name.clone(), *a as i64);
                                        }
                                    },
                                }
                            }
                        }
                    }
                }

                // --- replica: symbolic expressions
                if let Some(t) = f.replica.get(&oid) {
                    if render_replica(t) != real {
                        rep.label("replica-diverged");
                    } else if local.is_empty() {
                        if let Some(vals) = t.values() {
                            // symbolic element values (constants were handled above)
                            if t.to_constant().is_none() {
                                let want_rank = t.ndim().unwrap();
                                let got = elems_i64(actual).unwrap();
                                if want_rank != ashape.len() || vals.len() != got.len() {
                                    local.push(Violation {
                                        sig: value_sig("shape", actual.dtype_name()).unwrap_or(format!("value-shape:{op_name}")),
                                        detail: ctx(format!("inferred symbolic value {t:?} but execution produced shape {ashape:?}")),
                                    });
                                } else {
                                    for (k, (e, a)) in vals.iter().zip(&got).enumerate() {
                                        if let (SymExpr::Var(s), Some(a)) = (e, a) {
                                            if !env.contains_key(&s.name) {
                                                env.insert(s.name.clone(), *a);
                                                continue;
                                            }
                                        }
                                        if let Some(v) = eval_expr(e, &env) {
                                            if *a != Some(v) {
                                                local.push(Violation {
                                                    sig: match a {
                                                        Some(a) => expr_sig("value-expr", &op_name, e, *a, &env, value_sig("value-expr", actual.dtype_name())),
                                                        None => value_sig("value-expr", actual.dtype_name()).unwrap_or(format!("value-expr:{op_name}:{}", expr_kind(e))),
                                                    },
                                                    detail: ctx(format!("inferred element {k} = `{e}` which evaluates to {v}, but execution produced {actual:?}")),
                                                });
                                                break;
                                            } else {
                                                checked_fixed = true;
                                                rep.label("checked:value-expr");
                                                rep.label(&format!("value-expr-kind:{}", expr_kind(e)));
                                            }
                                        }
                                    }
                                }
                            }
                        } else if let Some(dims) = t.shape() {
                            for (k, (e, a)) in dims.zip(&ashape).enumerate() {
                                if matches!(e, SymExpr::Value(_) | SymExpr::Var(_)) {
                                    continue;
                                }
                                if let Some(v) = eval_expr(&e, &env) {
                                    if v != *a as i64 {
                                        local.push(Violation {
                                            sig: expr_sig("dim-expr", &op_name, &e, *a as i64, &env, if op_name == "Reshape" || pool_special.is_some() { Some(shape_sig("dim-expr")).filter(|s| s.starts_with("shape:") || s.starts_with("eval:")) } else { None }),
                                            detail: ctx(format!("dim {k} inferred as `{e}` which evaluates to {v}, but execution produced shape {ashape:?}")),
                                        });
                                        break;
                                    } else {
                                        checked_fixed = true;
                                        rep.label("checked:dim-expr");
                                        rep.label(&format!("dim-expr-kind:{}", expr_kind(&e)));
                                    }
                                }
                            }
                        }
                    }
                }
            }

            if checked_fixed {
                rep.nontrivial = true;
                rep.label(&format!("checked-op:{op_name}"));
            }
            if local.is_empty() {
                expr_names.append(&mut pending_expr_names);
            }
            if !local.is_empty() {
                tainted.insert(oid);
                if tainted_in {
                    rep.label("downstream-of-violation-suppressed");
                } else {
                    rep.violations.extend(local);
                }
            }
        }
    }
    tainted
}

// ---------------------------------------------------------------------------
// Whole-model analysis
// ---------------------------------------------------------------------------

pub struct Loaded {
    pub plain: Model,
    pub bytes: Vec<u8>,
}

fn infer_real(graph: &Graph, strict: bool) -> Result<Result<InferResult, String>, vcore::PanicInfo> {
    vcore::catch(|| infer_shapes(graph, InferShapeOptions { strict, ..Default::default() }).map_err(|e| format!("{e}")))
}

/// Known C10 signatures, so that a case with several violations reports an
/// unlisted one first (the engine only sees one verdict per case).
pub fn known_signatures() -> Vec<String> {
    let path = vcore::verif_root().join("known_findings.jsonl");
    let mut out = Vec::new();
    if let Ok(text) = std::fs::read_to_string(path) {
        for line in text.lines() {
            if let Ok(v) = serde_json::from_str::<serde_json::Value>(line.trim()) {
                if v["property"] == "C10" && v["status"] == "known" {
                    if let Some(s) = v["signature"].as_str() {
                        out.push(s.to_string());
                    }
                }
            }
        }
    }
    out
}

pub fn is_known(known: &[String], sig: &str) -> bool {
    known.iter().any(|k| k == sig || (k.ends_with('*') && sig.starts_with(k.trim_end_matches('*'))))
}

pub struct Options {
    pub end_to_end: bool,
    pub tol: Tol,
}

/// Analyse one model under several instantiations.
pub fn analyse(model: &ModelDef, insts: &[Inst], opts: &Options) -> Report {
    let mut rep = Report::default();
    let m = all_outputs_model(model);
    let bytes = m.encode();
    let plain = match vcore::catch(|| Config::Plain.load(&bytes)) {
        Ok(Ok(p)) => p,
        Ok(Err(_)) => {
            rep.label("load-failed");
            return rep;
        }
        Err(_) => {
            rep.label("load-panicked");
            return rep;
        }
    };
    let graph = plain.verif_graph();
    let order = match plan(graph) {
        Ok(o) => o,
        Err(_) => {
            rep.label("plan-failed");
            return rep;
        }
    };
    // the driver under test, with the loader's two option sets
    let real_on = match infer_real(graph, false) {
        Ok(Ok(r)) => r,
        Ok(Err(e)) => {
            // non-strict inference only fails when planning fails
            rep.label("infer-on-error");
            let _ = e;
            return rep;
        }
        Err(p) => {
            rep.fail(format!("infer-panic:{}", p.signature()), format!("infer_shapes (non-strict) panicked: {} at {}", p.msg, p.loc()));
            return rep;
        }
    };
    let real_strict = match infer_real(graph, true) {
        Ok(Ok(r)) => {
            rep.label("strict-ok");
            Some(r)
        }
        Ok(Err(_)) => {
            rep.label("strict-refused");
            None
        }
        Err(p) => {
            rep.fail(format!("infer-panic:{}", p.signature()), format!("infer_shapes (strict) panicked: {} at {}", p.msg, p.loc()));
            None
        }
    };
    // Does the driver under test keep symbolic values for float outputs? It
    // does iff it reports a constant for some float-typed value (drivers with
    // the float rule never do). The replica follows the driver it is paired with.
    let driver_keeps_float_values = real_on.shapes.iter().any(|(id, sh)| {
        matches!(sh, Shape::Constant { .. }) && matches!(real_on.types.get(id), Some(ValueType::Tensor(DataType::Float)))
    });
    if driver_keeps_float_values {
        rep.label("driver-keeps-float-values");
    }
    let float_types = if driver_keeps_float_values { None } else { Some(&real_on.types) };
    let replica = match vcore::catch(|| replica_infer(graph, &order, InferShapeOptions::default().max_complexity, float_types)) {
        Ok(r) => r,
        Err(_) => HashMap::new(),
    };

    // optimised models for the end-to-end clause: infer-off vs infer-on
    let mut pending_load_failure: Option<String> = None;
    let mut pending_load_panic: Option<vcore::PanicInfo> = None;
    let mut some_inst_fully_ran = false;
    let e2e_models = if opts.end_to_end {
        let off = vcore::catch(|| Config::OptInferOff.load(&bytes));
        match off {
            Ok(Ok(off)) => match vcore::catch(|| Config::OptInferOn.load(&bytes)) {
                Ok(Ok(on)) => Some((off, on)),
                Ok(Err(e)) => {
                    pending_load_failure = Some(e);
                    None
                }
                Err(p) => {
                    pending_load_panic = Some(p);
                    None
                }
            },
            _ => {
                rep.label("e2e-skipped:infer-off-load-failed");
                None
            }
        }
    } else {
        None
    };

    for (k, inst) in insts.iter().enumerate() {
        let ex = match exec_per_op(graph, &order, &inst.inputs) {
            Ok(e) => e,
            Err(_) => continue,
        };
        if ex.values.is_empty() {
            rep.label("inst:nothing-ran");
            continue;
        }
        rep.label(if k == 0 { "inst:original" } else { "inst:alternate" });
        if inst.has_zero {
            rep.label("inst:has-zero-dim");
        }
        if ex.ops_failed > 0 {
            rep.label("inst:some-ops-failed");
        }
        if ex.ops_failed == 0 && ex.ops_panicked == 0 {
            some_inst_fully_ran = true;
        }
        if ex.ops_panicked > 0 {
            rep.label("inst:some-ops-panicked");
        }
        let facts = GraphFacts { graph, order: &order, real: &real_on, replica: &replica, mode: "infer-on", independent_ops: false };
        let tainted = check_inst(&facts, &ex, inst, &mut rep);
        if let Some(rs) = &real_strict {
            let facts = GraphFacts { graph, order: &order, real: rs, replica: &replica, mode: "infer-strict", independent_ops: false };
            check_inst(&facts, &ex, inst, &mut rep);
        }

        if let Some((off, on)) = &e2e_models {
            // request the values the per-operator run produced as tensors
            let names: Vec<(NodeId, String)> = ex
                .values
                .iter()
                .filter(|(_, t)| !matches!(t, TVal::Other(_)))
                .map(|(id, _)| (*id, graph.node_name(*id)))
                .collect();
            let name_list: Vec<String> = names.iter().map(|(_, n)| n.clone()).collect();
            // Values computed from an empty tensor into a non-empty one (empty
            // reductions) are excluded from the value comparison, with their
            // descendants: some operators (GlobalMaxPool / GlobalAveragePool over
            // empty spatial dims) return whatever the output buffer contained.
            let mut unstable: BTreeSet<NodeId> = BTreeSet::new();
            for op_id in &order {
                let Some(Node::Operator(op)) = graph.get_node(*op_id) else { continue };
                let numel_of = |i: &NodeId| -> Option<usize> {
                    if let Some(t) = ex.values.get(i) {
                        return Some(t.numel());
                    }
                    if let Some((_, t)) = inst.inputs.iter().find(|(n, _)| graph.get_node_id(n) == Some(*i)) {
                        return Some(t.numel());
                    }
                    match graph.get_node(*i) {
                        Some(Node::Constant(c)) => Some(c.shape().iter().product()),
                        _ => None,
                    }
                };
                let empty_in = op.input_ids().iter().flatten().any(|i| numel_of(i) == Some(0));
                let bad_in = op.input_ids().iter().flatten().any(|i| unstable.contains(i));
                for oid in op.output_ids().iter().flatten() {
                    let nonempty_out = ex.values.get(oid).map(|t| t.numel() > 0).unwrap_or(true);
                    if bad_in || (empty_in && nonempty_out) {
                        unstable.insert(*oid);
                    }
                }
            }
            let base = match vcore::catch(|| run_named(off, &inst.inputs, &name_list, None, None)) {
                Ok(Ok(o)) => o,
                _ => {
                    rep.label("e2e-skipped:infer-off-run-failed");
                    continue;
                }
            };
            match vcore::catch(|| run_named(on, &inst.inputs, &name_list, None, None)) {
                Ok(Ok(outs)) => {
                    rep.label("checked:e2e");
                    for (((id, name), b), o) in names.iter().zip(&base).zip(&outs) {
                        if tainted.contains(id) {
                            continue;
                        }
                        if unstable.contains(id) {
                            // shape and dtype must still agree
                            if b.shape() != o.shape() || b.dtype_name() != o.dtype_name() {
                                let op_name = graph.get_source_node(*id).map(|(_, op)| op.operator().name().to_string()).unwrap_or_default();
                                rep.fail(
                                    format!("e2e-mismatch:{op_name}"),
                                    format!("with {:?}: output {name} (produced by {op_name}) has shape {:?}/{} with shape inference off and {:?}/{} with it on", inst.assign, b.shape(), b.dtype_name(), o.shape(), o.dtype_name()),
                                );
                                break;
                            }
                            rep.label("e2e-value-skipped:computed-from-empty-tensor");
                            continue;
                        }
                        if let Err(why) = compare(b, o, opts.tol) {
                            // Only differences attributable to shape inference: the
                            // infer-off result must agree with the unoptimised
                            // per-operator value (this also filters operators whose
                            // output is not a function of their inputs, e.g. reading
                            // an uninitialised buffer for an empty reduction).
                            if compare(&ex.values[id], b, opts.tol).is_err() {
                                rep.label("e2e-skipped-value:infer-off-differs-from-unoptimised");
                                continue;
                            }
                            let op_name = graph.get_source_node(*id).map(|(_, op)| op.operator().name().to_string()).unwrap_or_default();
                            rep.fail(
                                format!("e2e-mismatch:{op_name}"),
                                format!("with {:?}: output {name} (produced by {op_name}) differs between optimisation with shape inference off and on: {why}", inst.assign),
                            );
                            break;
                        }
                    }
                }
                Ok(Err(e)) => {
                    if tainted.is_empty() {
                        rep.fail("e2e-run-failed".to_string(), format!("with {:?}: run succeeds with shape inference off but fails with it on: {e}", inst.assign));
                    } else {
                        rep.label("e2e-run-failed-after-violation");
                    }
                }
                Err(p) => {
                    if tainted.is_empty() {
                        rep.fail(format!("e2e-run-panic:{}", p.signature()), format!("run with shape inference on panicked: {} at {}", p.msg, p.loc()));
                    } else {
                        rep.label("e2e-run-failed-after-violation");
                    }
                }
            }
        }
    }
    if let Some(p) = pending_load_panic {
        // Same rule for a panic: constant propagation runs operators whose inputs
        // inference turned into constants; an operator that panics on those
        // inputs when it is run (e.g. i32 overflow in builds with overflow
        // checks) then panics at load time. That is the operator's defect, not a
        // contradiction of inference, unless every operator of the model ran.
        if !rep.violations.is_empty() {
            rep.label("e2e-load-panic-after-violation");
        } else if some_inst_fully_ran {
            rep.fail(
                format!("e2e-load-panic:{}", p.signature()),
                format!("every operator of the model runs, but load with shape inference on panicked: {} at {}", p.msg, p.loc()),
            );
        } else {
            rep.label("e2e-load-panic-on-model-with-failing-operator");
        }
    }
    if let Some(e) = pending_load_failure {
        // Constant propagation evaluates operators whose inputs became constants;
        // an operator that fails for every input then fails at load time instead
        // of at run time. That is only a contradiction when the model is valid,
        // i.e. every operator ran for some instantiation.
        if !rep.violations.is_empty() {
            rep.label("e2e-load-failed-after-violation");
        } else if some_inst_fully_ran {
            rep.fail(
                "e2e-load-failed".to_string(),
                format!("every operator of the model runs, and it loads with optimisation and shape inference off, but it fails to load with shape inference on: {e}"),
            );
        } else {
            rep.label("e2e-load-failed-on-invalid-model");
        }
    }
    rep
}

/// Turn a report into a verdict: the first violation whose signature is not a
/// known finding, else the first known one, else pass.
pub fn verdict(rep: Report, known: &[String]) -> vcore::Verdict {
    if let Some(v) = rep.violations.iter().find(|v| !is_known(known, &v.sig)).or(rep.violations.first()) {
        return vcore::Verdict::fail(v.sig.clone(), v.detail.clone());
    }
    vcore::Verdict::pass_l(rep.nontrivial, rep.labels.into_iter().collect())
}

//! Dedicated generator of shape-computing chains.
//!
//! Graph inputs have fixed and symbolic dims (a small alphabet of symbol
//! names, so the same symbol appears in several places). A pool of
//! *shape-carrying values* (int64 / int32 / float scalars and vectors:
//! `Shape`, `Size`, constants incl. negative and zero, float constants with
//! integral values) is transformed by Gather / Unsqueeze / Squeeze / Concat /
//! Add / Sub / Mul / Div / Neg / Abs / Min / Max / Equal / Where / Cast /
//! Identity / Slice / Reshape, and consumed by *sinks* that turn values into
//! shapes: Reshape, Expand, ConstantOfShape, Range, Tile, Slice, Pad, TopK,
//! OneHot, Resize, Squeeze, Unsqueeze, Reduce*, Flatten, Transpose, Gather,
//! Concat, Split, broadcasting binary ops. Sink outputs feed `Shape` again.
//!
//! Only ranks and vector lengths are tracked (they are static); element values
//! are not, so a model may fail at run time for some instantiation — the
//! oracle simply has nothing to check for the values that were not produced.

use proptest::prelude::*;
use serde::{Deserialize, Serialize};
use vc_onnxgen::model::*;
use vc_onnxgen::TVal;

use crate::hash32;

#[derive(Clone, Debug, PartialEq, Serialize, Deserialize)]
pub struct RawChainInput {
    pub rank: u8,
    /// per dim: low 2 bits = kind (0,1 fixed; 2,3 symbolic), next bits = symbol index / size selector
    pub dims: [u8; 4],
    pub int: bool,
    /// `big % 3 == 0`: one dim of this input is drawn from `BIG_DIMS` (fixed or
    /// the symbol `big`), the others from {0, 1, 2} ({0, 1} next to 65537)
    #[serde(default)]
    pub big: u8,
}

#[derive(Clone, Debug, PartialEq, Serialize, Deserialize)]
pub struct RawChain {
    pub inputs: Vec<RawChainInput>,
    pub sym_sizes: [u8; 4],
    pub steps: Vec<[u16; 6]>,
    pub seed: u16,
}

pub fn raw_chain(max_steps: usize) -> impl Strategy<Value = RawChain> {
    let input = (1u8..=4, any::<[u8; 4]>(), any::<bool>(), any::<u8>()).prop_map(|(rank, dims, int, big)| RawChainInput { rank, dims, int, big });
    (proptest::collection::vec(input, 1..=3), any::<[u8; 4]>(), proptest::collection::vec(any::<[u16; 6]>(), 1..=max_steps), any::<u16>())
        .prop_map(|(inputs, sym_sizes, steps, seed)| RawChain { inputs, sym_sizes, steps, seed })
}

#[derive(Clone, Debug, PartialEq, Serialize, Deserialize)]
pub struct ChainBuilt {
    pub model: ModelDef,
    pub inputs: Vec<(String, TVal)>,
    pub op_types: Vec<String>,
}

#[derive(Clone, Debug, PartialEq, Serialize, Deserialize)]
pub enum ChainCase {
    Raw(RawChain),
    Fixed(Box<ChainBuilt>),
}

impl ChainCase {
    pub fn build(&self) -> ChainBuilt {
        match self {
            ChainCase::Raw(r) => build(r),
            ChainCase::Fixed(b) => (**b).clone(),
        }
    }
    pub fn export(&self) -> ChainCase {
        ChainCase::Fixed(Box::new(self.build()))
    }
}

/// Dimension sizes around the ranges of the 8-bit element types (values that a
/// narrowing Cast of a shape value wraps) plus one beyond 16 bits.
const BIG_DIMS: [usize; 9] = [127, 128, 129, 255, 256, 257, 300, 511, 65537];

const SYMS: [&str; 4] = ["batch", "seq", "h", "w"];
const SIZES: [usize; 8] = [1, 2, 3, 4, 2, 3, 0, 5];

#[derive(Clone, Debug)]
struct Ten {
    name: String,
    dt: DType,
    rank: usize,
    /// upper bound on the number of elements (keeps generated tensors small)
    nb: f64,
}

/// Shape-carrying value: scalar (`len == None`) or vector of static length.
#[derive(Clone, Debug)]
struct Iv {
    name: String,
    dt: DType,
    len: Option<usize>,
    /// upper bound on |element|
    mag: f64,
}

struct B {
    seed: u32,
    counter: usize,
    nodes: Vec<NodeDef>,
    inits: Vec<(String, TensorLit)>,
    tens: Vec<Ten>,
    ivs: Vec<Iv>,
    bools: Vec<Iv>,
}

/// Bound on the element count of any tensor the generator lets other nodes consume.
const MAX_NUMEL: f64 = 65536.0;

fn idx(sel: u16, n: usize) -> usize {
    ((sel as usize) * n) >> 16
}

/// small integer in -3..=6, zero and negatives included
fn small(x: u16) -> i64 {
    (x % 10) as i64 - 3
}

impl B {
    fn fresh(&mut self, p: &str) -> String {
        self.counter += 1;
        format!("{p}{}", self.counter)
    }
    fn node(&mut self, op: &str, ins: Vec<String>, attrs: Vec<(&str, Attr)>, n_out: usize) -> Vec<String> {
        let name = self.fresh("n");
        let outs: Vec<String> = (0..n_out).map(|_| self.fresh("v")).collect();
        self.nodes.push(NodeDef {
            op: op.to_string(),
            domain: String::new(),
            name,
            inputs: ins,
            outputs: outs.clone(),
            attrs: attrs.into_iter().map(|(k, v)| (k.to_string(), v)).collect(),
        });
        outs
    }
    fn const_int(&mut self, dt: DType, vals: &[i64], scalar: bool) -> String {
        let name = self.fresh("k");
        let dims: Vec<i64> = if scalar { vec![] } else { vec![vals.len() as i64] };
        let mut lit = match dt {
            DType::I32 => TensorLit::i32(&dims, vals.to_vec()),
            DType::U8 => TensorLit { dtype: DType::U8, dims: dims.clone(), f: vec![], i: vals.iter().map(|v| v.abs()).collect(), raw: true },
            DType::I8 => TensorLit { dtype: DType::I8, dims: dims.clone(), f: vec![], i: vals.to_vec(), raw: true },
            DType::F32 => TensorLit::f32(&dims, vals.iter().map(|v| *v as f32).collect()),
            _ => TensorLit::i64(&dims, vals.to_vec()),
        };
        lit.raw = hash32(self.seed, self.counter as u32) % 2 == 0;
        self.inits.push((name.clone(), lit));
        name
    }
    fn const_f32_tensor(&mut self, shape: &[usize]) -> String {
        let name = self.fresh("c");
        let n: usize = shape.iter().product();
        let s = hash32(self.seed, self.counter as u32);
        let data: Vec<f32> = (0..n as u32).map(|i| ((hash32(s, i) % 17) as i32 - 8) as f32 * 0.5).collect();
        self.inits.push((name.clone(), TensorLit::f32(&shape.iter().map(|d| *d as i64).collect::<Vec<_>>(), data)));
        name
    }
    fn i64v(&mut self, vals: &[i64]) -> String {
        self.const_int(DType::I64, vals, false)
    }
    fn add_iv(&mut self, name: String, dt: DType, len: Option<usize>, mag: f64) {
        // values whose magnitude bound explodes are not re-used (keeps every
        // generated tensor small: no huge allocations at load or run time)
        if mag > 1.0e6 {
            return;
        }
        if dt == DType::Bool {
            self.bools.push(Iv { name, dt, len, mag: 1.0 });
        } else {
            self.ivs.push(Iv { name, dt, len, mag });
        }
    }
    fn add_ten(&mut self, name: String, dt: DType, rank: usize, nb: f64) {
        if rank <= 5 && nb <= MAX_NUMEL {
            self.tens.push(Ten { name, dt, rank, nb });
        }
    }
    fn pick_iv(&self, sel: u16, pred: impl Fn(&Iv) -> bool) -> Option<Iv> {
        let c: Vec<&Iv> = self.ivs.iter().rev().filter(|v| pred(v)).collect();
        if c.is_empty() {
            None
        } else {
            Some(c[idx(sel, c.len())].clone())
        }
    }
    fn pick_ten(&self, sel: u16, pred: impl Fn(&Ten) -> bool) -> Option<Ten> {
        let c: Vec<&Ten> = self.tens.iter().rev().filter(|v| pred(v)).collect();
        if c.is_empty() {
            None
        } else {
            Some(c[idx(sel, c.len())].clone())
        }
    }
    /// An int64 vector of exactly `len` elements: from the pool, or a constant.
    fn vec_of_len(&mut self, sel: u16, len: usize, konst: &[u16], lo: i64, max_mag: f64) -> String {
        if sel % 3 != 0 {
            if let Some(v) = self.pick_iv(sel, |v| v.len == Some(len) && v.dt == DType::I64 && v.mag <= max_mag) {
                return v.name;
            }
        }
        let vals: Vec<i64> = (0..len).map(|i| small(konst[i % konst.len()].wrapping_add(i as u16 * 7)).max(lo)).collect();
        self.i64v(&vals)
    }
    /// An int64 scalar: from the pool or a constant.
    fn scalar_i64(&mut self, sel: u16, k: u16, max_mag: f64) -> String {
        if sel % 3 != 0 {
            if let Some(v) = self.pick_iv(sel, |v| v.len.is_none() && v.dt == DType::I64 && v.mag <= max_mag) {
                return v.name;
            }
        }
        self.const_int(DType::I64, &[small(k)], true)
    }

    fn step(&mut self, s: &[u16; 6]) {
        let kind = idx(s[0], 40);
        match kind {
            // ---------------- sources
            0..=3 => {
                // Shape with optional start/end (negative and out-of-range values are clamped)
                let Some(t) = self.pick_ten(s[1], |_| true) else { return };
                let r = t.rank as i64;
                let mut attrs = vec![];
                let (mut st, mut en) = (0i64, r);
                if s[2] % 3 == 0 {
                    let v = (s[3] % 9) as i64 - 4 + if s[3] % 11 == 0 { 7 } else { 0 };
                    attrs.push(("start", Attr::Int(v)));
                    st = (if v < 0 { v + r } else { v }).clamp(0, r);
                }
                if s[2] % 4 == 0 {
                    let v = (s[4] % 9) as i64 - 4 + if s[4] % 11 == 0 { 7 } else { 0 };
                    attrs.push(("end", Attr::Int(v)));
                    en = (if v < 0 { v + r } else { v }).clamp(0, r);
                }
                let len = (en.max(st) - st) as usize;
                let o = self.node("Shape", vec![t.name], attrs, 1).remove(0);
                self.add_iv(o, DType::I64, Some(len), t.nb.max(6.0));
            }
            4 => {
                let Some(t) = self.pick_ten(s[1], |_| true) else { return };
                let o = self.node("Size", vec![t.name], vec![], 1).remove(0);
                self.add_iv(o, DType::I64, None, t.nb);
            }
            5 | 6 => {
                // constant int / float-with-integral-values, scalar or vector
                let dt = [DType::I64, DType::I64, DType::F32, DType::I32][idx(s[1], 4)];
                let scalar = s[2] % 2 == 0;
                let n = if scalar { 1 } else { 1 + (s[2] as usize / 2) % 3 };
                let vals: Vec<i64> = (0..n).map(|i| small(s[3].wrapping_add(i as u16 * 13))).collect();
                let name = self.const_int(dt, &vals, scalar);
                self.add_iv(name, dt, if scalar { None } else { Some(n) }, 6.0);
            }
            // ---------------- value transformers
            7..=10 => {
                // Gather on a vector with constant indices (negative allowed)
                let Some(v) = self.pick_iv(s[1], |v| v.len.map(|l| l > 0).unwrap_or(false)) else { return };
                let l = v.len.unwrap() as i64;
                let mk = |x: u16| {
                    let i = (x as i64) % l;
                    if x & 0x100 != 0 {
                        i - l
                    } else {
                        i
                    }
                };
                let (ind, out_len) = match s[2] % 4 {
                    0 | 1 => (self.const_int(DType::I64, &[mk(s[3])], true), None),
                    2 => (self.const_int(DType::I64, &[mk(s[3])], false), Some(1)),
                    _ => (self.const_int(DType::I64, &[mk(s[3]), mk(s[4])], false), Some(2)),
                };
                let o = self.node("Gather", vec![v.name, ind], vec![("axis", Attr::Int(0))], 1).remove(0);
                self.add_iv(o, v.dt, out_len, v.mag);
            }
            11 | 12 => {
                // Unsqueeze scalar -> [1] / Squeeze [1] -> scalar
                if s[2] % 2 == 0 {
                    let Some(v) = self.pick_iv(s[1], |v| v.len.is_none()) else { return };
                    let ax = self.i64v(&[if s[3] % 2 == 0 { 0 } else { -1 }]);
                    let o = self.node("Unsqueeze", vec![v.name, ax], vec![], 1).remove(0);
                    self.add_iv(o, v.dt, Some(1), v.mag);
                } else {
                    let Some(v) = self.pick_iv(s[1], |v| v.len == Some(1)) else { return };
                    let mut ins = vec![v.name];
                    if s[3] % 3 != 0 {
                        ins.push(self.i64v(&[if s[3] % 2 == 0 { 0 } else { -1 }]));
                    }
                    let o = self.node("Squeeze", ins, vec![], 1).remove(0);
                    self.add_iv(o, v.dt, None, v.mag);
                }
            }
            13..=15 => {
                // Concat of 2-3 vectors of the same dtype
                let Some(a) = self.pick_iv(s[1], |v| v.len.is_some()) else { return };
                let mut parts = vec![a.clone()];
                for (j, sel) in [s[2], s[3]].iter().enumerate().take(1 + (s[4] % 2) as usize) {
                    if sel % 4 == 0 {
                        let vals: Vec<i64> = (0..1 + j).map(|i| small(s[5].wrapping_add(i as u16 * 5))).collect();
                        let name = self.const_int(a.dt, &vals, false);
                        parts.push(Iv { name, dt: a.dt, len: Some(vals.len()), mag: 6.0 });
                    } else if let Some(b) = self.pick_iv(*sel, |v| v.len.is_some() && v.dt == a.dt) {
                        parts.push(b);
                    }
                }
                let len: usize = parts.iter().map(|p| p.len.unwrap()).sum();
                let ax = if s[4] % 3 == 0 { -1 } else { 0 };
                let o = self.node("Concat", parts.iter().map(|p| p.name.clone()).collect(), vec![("axis", Attr::Int(ax))], 1).remove(0);
                self.add_iv(o, a.dt, Some(len), parts.iter().map(|p| p.mag).fold(0.0, f64::max));
            }
            16..=20 => {
                // arithmetic
                let Some(a) = self.pick_iv(s[1], |_| true) else { return };
                let op = ["Add", "Sub", "Mul", "Div", "Min", "Max", "Add", "Mul", "Div"][idx(s[2], 9)];
                let b = if s[3] % 3 != 0 {
                    self.pick_iv(s[3], |v| v.dt == a.dt && (v.len == a.len || v.len.is_none() || v.len == Some(1) || a.len.is_none() || a.len == Some(1)))
                } else {
                    None
                };
                let b = match b {
                    Some(b) => b,
                    None => {
                        let mut k = small(s[4]);
                        if op == "Div" && k == 0 {
                            k = 2;
                        }
                        let scalar = s[5] % 3 != 0;
                        let name = self.const_int(a.dt, &[k], scalar);
                        Iv { name, dt: a.dt, len: if scalar { None } else { Some(1) }, mag: 6.0 }
                    }
                };
                let len = match (a.len, b.len) {
                    (None, l) | (l, None) => l,
                    (Some(1), l) | (l, Some(1)) => l,
                    (l, _) => l,
                };
                let mag = match op {
                    "Add" | "Sub" => a.mag + b.mag,
                    "Mul" => a.mag * b.mag,
                    "Div" => a.mag,
                    _ => a.mag.max(b.mag),
                };
                let (p, q) = if s[5] % 2 == 0 { (a.clone(), b) } else { (b, a.clone()) };
                let o = self.node(op, vec![p.name, q.name], vec![], 1).remove(0);
                self.add_iv(o, a.dt, len, mag);
            }
            21 => {
                let Some(a) = self.pick_iv(s[1], |_| true) else { return };
                let op = ["Neg", "Abs", "Identity", "Neg"][idx(s[2], 4)];
                let o = self.node(op, vec![a.name], vec![], 1).remove(0);
                self.add_iv(o, a.dt, a.len, a.mag);
            }
            22 | 23 => {
                // Equal / Where
                if s[2] % 2 == 0 || self.bools.is_empty() {
                    let Some(a) = self.pick_iv(s[1], |_| true) else { return };
                    let b = if s[3] % 2 == 0 { self.pick_iv(s[3], |v| v.dt == a.dt && v.len == a.len) } else { None };
                    let bname = match b {
                        Some(b) => b.name,
                        None => self.const_int(a.dt, &[small(s[4])], true),
                    };
                    let op = ["Equal", "Equal", "Less", "Greater"][idx(s[5], 4)];
                    let o = self.node(op, vec![a.name, bname], vec![], 1).remove(0);
                    self.add_iv(o, DType::Bool, a.len, 1.0);
                } else {
                    let c = self.bools[idx(s[1], self.bools.len())].clone();
                    let Some(x) = self.pick_iv(s[3], |v| v.len == c.len || v.len.is_none()) else { return };
                    let (y, ymag) = match self.pick_iv(s[4], |v| v.dt == x.dt && (v.len == c.len || v.len.is_none())) {
                        Some(y) if s[5] % 3 != 0 => (y.name, y.mag),
                        _ => (self.const_int(x.dt, &[small(s[5])], true), 6.0),
                    };
                    let o = self.node("Where", vec![c.name, x.name, y], vec![], 1).remove(0);
                    self.add_iv(o, x.dt, c.len.or(x.len), x.mag.max(ymag));
                }
            }
            24 | 25 => {
                // Cast between int64 / int32 / float / bool
                let Some(a) = self.pick_iv(s[1], |_| true) else { return };
                // narrowing casts (uint8 / int8 wrap values such as 300 or -1) and back
                let to = if matches!(a.dt, DType::U8 | DType::I8) {
                    [DType::I64, DType::I32, DType::F32, DType::I64, DType::I8, DType::U8][idx(s[2], 6)]
                } else {
                    [DType::I64, DType::F32, DType::I32, DType::U8, DType::I8, DType::Bool, DType::U8, DType::I64][idx(s[2], 8)]
                };
                let o = self.node("Cast", vec![a.name], vec![("to", Attr::Int(to.onnx_code()))], 1).remove(0);
                self.add_iv(o, to, a.len, a.mag);
            }
            26 | 27 => {
                // Slice of a vector with constant bounds (negative, out-of-range, INT_MAX, steps)
                let Some(v) = self.pick_iv(s[1], |v| v.len.is_some()) else { return };
                let l = v.len.unwrap() as i64;
                let step = [1i64, 1, 1, 2, -1, -2][idx(s[2], 6)];
                let bound = |x: u16| -> i64 {
                    match x % 8 {
                        0 => i32::MAX as i64,
                        1 => -(i32::MAX as i64),
                        _ => (x as i64 / 8) % (2 * l + 3) - l - 1,
                    }
                };
                let (st, en) = (bound(s[3]), bound(s[4]));
                let norm = |v: i64| if v < 0 { v + l } else { v };
                let len = if step > 0 {
                    let (a, b) = (norm(st).clamp(0, l), norm(en).clamp(0, l));
                    ((b - a).max(0) + step - 1) / step
                } else {
                    let (a, b) = (norm(st).clamp(-1, l - 1), if en < -l { -1 } else { norm(en).clamp(-1, l - 1) });
                    ((a - b).max(0) + (-step) - 1) / (-step)
                };
                let mut ins = vec![v.name.clone(), self.i64v(&[st]), self.i64v(&[en])];
                if s[5] % 2 == 0 || step != 1 {
                    ins.push(self.i64v(&[if s[5] % 4 < 2 { 0 } else { -1 }]));
                    if step != 1 || s[5] % 3 == 0 {
                        ins.push(self.i64v(&[step]));
                    }
                }
                let o = self.node("Slice", ins, vec![], 1).remove(0);
                self.add_iv(o, v.dt, Some(len.max(0) as usize), v.mag);
            }
            28 => {
                // Reshape of a vector to [-1] / of a [1] vector to a scalar
                let Some(v) = self.pick_iv(s[1], |v| v.len.is_some()) else { return };
                if v.len == Some(1) && s[2] % 2 == 0 {
                    let sh = self.i64v(&[]);
                    let o = self.node("Reshape", vec![v.name, sh], vec![], 1).remove(0);
                    self.add_iv(o, v.dt, None, v.mag);
                } else {
                    let sh = self.i64v(&[-1]);
                    let o = self.node("Reshape", vec![v.name, sh], vec![], 1).remove(0);
                    self.add_iv(o, v.dt, v.len, v.mag);
                }
            }
            // ---------------- sinks
            29 => {
                let Some(v) = self.pick_iv(s[1], |v| v.dt == DType::I64 && v.len.map(|l| l <= 4 && v.mag.powi(l as i32) <= MAX_NUMEL).unwrap_or(false)) else { return };
                let nb = v.mag.powi(v.len.unwrap() as i32).max(1.0);
                let attrs = match s[2] % 4 {
                    0 => vec![],
                    1 => vec![("value", Attr::Tensor(TensorLit::i64(&[1], vec![small(s[3])])))],
                    2 => vec![("value", Attr::Tensor(TensorLit::f32(&[1], vec![small(s[3]) as f32])))],
                    _ => vec![("value", Attr::Tensor(TensorLit::i32(&[1], vec![small(s[3])])))],
                };
                let dt = match s[2] % 4 {
                    1 => DType::I64,
                    3 => DType::I32,
                    _ => DType::F32,
                };
                let o = self.node("ConstantOfShape", vec![v.name], attrs, 1).remove(0);
                let rank = v.len.unwrap();
                // an integer ConstantOfShape of a one-element shape is itself a shape-carrying vector
                if rank <= 1 && dt != DType::F32 && s[4] % 2 == 0 {
                    if rank == 1 {
                        // length unknown statically: usable only as a tensor
                        self.add_ten(o, dt, 1, nb);
                    } else {
                        self.add_iv(o, dt, None, 6.0);
                    }
                } else {
                    self.add_ten(o, dt, rank, nb);
                }
            }
            30 => {
                // Expand(tensor or scalar constant, shape vector)
                let Some(v) = self.pick_iv(s[1], |v| v.dt == DType::I64 && v.len.map(|l| l >= 1 && l <= 4 && v.mag.powi(l as i32) <= 4096.0).unwrap_or(false)) else { return };
                let (x, dt, r, xnb) = match self.pick_ten(s[2], |t| t.rank <= 3 && t.nb <= 1296.0) {
                    Some(t) if s[3] % 2 == 0 => (t.name, t.dt, t.rank, t.nb),
                    _ => (self.const_f32_tensor(&[]), DType::F32, 0, 1.0),
                };
                let nb = xnb * v.mag.powi(v.len.unwrap() as i32).max(1.0);
                if nb > 1.0e6 {
                    return;
                }
                let o = self.node("Expand", vec![x, v.name], vec![], 1).remove(0);
                self.add_ten(o, dt, r.max(v.len.unwrap()), nb);
            }
            31 | 32 => {
                // Reshape(tensor, shape): [-1, d...], [0, -1], pool vector, allowzero
                let Some(t) = self.pick_ten(s[1], |_| true) else { return };
                let (sh, len) = match s[2] % 5 {
                    0 => (self.i64v(&[-1]), 1),
                    1 if t.rank >= 2 => (self.i64v(&[0, -1]), 2),
                    2 => {
                        // Concat([-1], gathered dim) from the pool
                        match self.pick_iv(s[3], |v| v.dt == DType::I64 && v.len.map(|l| l >= 1 && l <= 3).unwrap_or(false)) {
                            Some(v) => {
                                let m1 = self.i64v(&[-1]);
                                let l = v.len.unwrap();
                                let ins = if s[4] % 2 == 0 { vec![m1, v.name] } else { vec![v.name, m1] };
                                let o = self.node("Concat", ins, vec![("axis", Attr::Int(0))], 1).remove(0);
                                self.add_iv(o.clone(), DType::I64, Some(l + 1), v.mag.max(1.0));
                                (o, l + 1)
                            }
                            None => (self.i64v(&[1, -1]), 2),
                        }
                    }
                    3 => match self.pick_iv(s[3], |v| v.dt == DType::I64 && v.len.map(|l| l >= 1 && l <= 4).unwrap_or(false)) {
                        Some(v) => (v.name.clone(), v.len.unwrap()),
                        None => (self.i64v(&[-1, 1]), 2),
                    },
                    _ => (self.i64v(&[1, -1]), 2),
                };
                let attrs = if s[5] % 5 == 0 { vec![("allowzero", Attr::Int(1))] } else { vec![] };
                let o = self.node("Reshape", vec![t.name, sh], attrs, 1).remove(0);
                self.add_ten(o, t.dt, len, t.nb);
            }
            33 => {
                // Range(start, limit, delta): int64 scalars from the pool / constants; float variant
                if s[1] % 5 == 0 {
                    let a = self.const_int(DType::F32, &[small(s[2])], true);
                    let b = self.const_int(DType::F32, &[small(s[3]) + 3], true);
                    let c = self.const_int(DType::F32, &[[1, 1, 2, -1][idx(s[4], 4)]], true);
                    let o = self.node("Range", vec![a, b, c], vec![], 1).remove(0);
                    self.add_ten(o, DType::F32, 1, 16.0);
                } else {
                    let a = if s[2] % 2 == 0 { self.const_int(DType::I64, &[0], true) } else { self.scalar_i64(s[2], s[5], 2000.0) };
                    let b = self.scalar_i64(s[3] | 1, s[5].wrapping_add(3), 2000.0);
                    let c = if s[4] % 3 != 0 { self.const_int(DType::I64, &[1], true) } else { self.const_int(DType::I64, &[[2, -1, -2, 3][idx(s[4], 4)]], true) };
                    let o = self.node("Range", vec![a, b, c], vec![], 1).remove(0);
                    self.add_ten(o, DType::I64, 1, 4100.0);
                }
            }
            34 => {
                // Tile(tensor, repeats)
                let Some(t) = self.pick_ten(s[1], |t| t.rank >= 1 && t.rank <= 3 && t.nb <= 1296.0) else { return };
                let reps = self.vec_of_len(s[2], t.rank, &[s[3], s[4]], 0, 6.0);
                let o = self.node("Tile", vec![t.name, reps], vec![], 1).remove(0);
                self.add_ten(o, t.dt, t.rank, t.nb * 6.0f64.powi(t.rank as i32));
            }
            35 | 36 => {
                // Slice(tensor, starts, ends[, axes[, steps]]) with bounds from the pool
                let Some(t) = self.pick_ten(s[1], |t| t.rank >= 1) else { return };
                let k = 1 + (s[2] as usize % 2).min(t.rank - 1);
                let st = self.vec_of_len(s[3], k, &[s[4], s[5]], -6, 1.0e6);
                let en = self.vec_of_len(s[4], k, &[s[5], s[3]], -6, 1.0e6);
                let mut ins = vec![t.name.clone(), st, en];
                if s[2] % 3 != 0 || k < t.rank {
                    let axes: Vec<i64> = (0..k).map(|i| if s[5] % 2 == 0 { i as i64 } else { i as i64 - t.rank as i64 }).collect();
                    ins.push(self.i64v(&axes));
                    if s[2] % 5 == 0 {
                        let steps: Vec<i64> = (0..k).map(|i| [1i64, 2, -1][(s[5] as usize + i) % 3]).collect();
                        ins.push(self.i64v(&steps));
                    }
                }
                let o = self.node("Slice", ins, vec![], 1).remove(0);
                self.add_ten(o, t.dt, t.rank, t.nb);
            }
            37 => {
                // Pad / TopK / OneHot / Resize / Split
                match s[1] % 5 {
                    0 => {
                        let Some(t) = self.pick_ten(s[2], |t| t.rank >= 1 && t.rank <= 3 && t.dt == DType::F32) else { return };
                        let pads = self.vec_of_len(s[3], 2 * t.rank, &[s[4] % 5 + 3, s[5] % 4 + 3], -1, 6.0);
                        let o = self.node("Pad", vec![t.name, pads], vec![], 1).remove(0);
                        self.add_ten(o, t.dt, t.rank, (t.nb.powf(1.0 / t.rank as f64) + 12.0).powi(t.rank as i32));
                    }
                    1 => {
                        // (TopK over tens of thousands of lanes takes seconds per run: small tensors only)
                        let Some(t) = self.pick_ten(s[2], |t| t.rank >= 1 && t.dt == DType::F32 && t.nb <= 4096.0) else { return };
                        let k = self.vec_of_len(s[3], 1, &[s[4] % 3 + 4], 0, 1.0e6);
                        let ax = if s[5] % 2 == 0 { -1 } else { idx(s[5], t.rank) as i64 };
                        let o = self.node("TopK", vec![t.name, k], vec![("axis", Attr::Int(ax))], 2);
                        self.add_ten(o[0].clone(), t.dt, t.rank, t.nb);
                        self.add_ten(o[1].clone(), DType::I64, t.rank, t.nb);
                    }
                    2 => {
                        let Some(t) = self.pick_ten(s[2], |t| t.dt != DType::F32 && t.rank <= 3) else { return };
                        let depth = self.scalar_i64(s[3], s[4] % 4 + 4, 16.0);
                        let vals = self.const_int(DType::F32, &[0, 1], false);
                        let ax = if s[5] % 2 == 0 { -1 } else { idx(s[5], t.rank + 1) as i64 };
                        let o = self.node("OneHot", vec![t.name, depth, vals], vec![("axis", Attr::Int(ax))], 1).remove(0);
                        self.add_ten(o, DType::F32, t.rank + 1, t.nb * 16.0);
                    }
                    3 => {
                        let Some(t) = self.pick_ten(s[2], |t| t.rank == 4 && t.dt == DType::F32) else { return };
                        let o = if s[3] % 2 == 0 {
                            let sc = self.const_int(DType::F32, &[1, 1, 1 + (s[4] % 2) as i64, 1 + (s[5] % 3) as i64], false);
                            self.node("Resize", vec![t.name, String::new(), sc], vec![("mode", Attr::Str("nearest".into()))], 1).remove(0)
                        } else {
                            let sizes = self.vec_of_len(s[4], 4, &[s[5] % 3 + 4, s[4] % 3 + 4], 1, 6.0);
                            self.node("Resize", vec![t.name, String::new(), String::new(), sizes], vec![("mode", Attr::Str("nearest".into()))], 1).remove(0)
                        };
                        self.add_ten(o, DType::F32, 4, (t.nb * 6.0).max(1296.0));
                    }
                    _ => {
                        let Some(t) = self.pick_ten(s[2], |t| t.rank >= 1) else { return };
                        let sp = self.vec_of_len(s[3], 2, &[s[4] % 3 + 3, s[5] % 3 + 3], 0, 1.0e6);
                        let ax = idx(s[5], t.rank) as i64;
                        let o = self.node("Split", vec![t.name, sp], vec![("axis", Attr::Int(ax))], 2);
                        self.add_ten(o[0].clone(), t.dt, t.rank, t.nb);
                        self.add_ten(o[1].clone(), t.dt, t.rank, t.nb);
                    }
                }
            }
            38 => {
                // rank-changing layout ops with constant axes
                let Some(t) = self.pick_ten(s[1], |_| true) else { return };
                match s[2] % 6 {
                    0 if t.rank <= 3 => {
                        let ax = idx(s[3], t.rank + 1) as i64;
                        let axc = self.i64v(&[if s[4] % 2 == 0 { ax } else { ax - (t.rank as i64 + 1) }]);
                        let o = self.node("Unsqueeze", vec![t.name, axc], vec![], 1).remove(0);
                        self.add_ten(o, t.dt, t.rank + 1, t.nb);
                    }
                    1 if t.rank >= 1 => {
                        let ax = idx(s[3], t.rank) as i64;
                        let axc = self.i64v(&[if s[4] % 2 == 0 { ax } else { ax - t.rank as i64 }]);
                        let o = self.node("Squeeze", vec![t.name, axc], vec![], 1).remove(0);
                        self.add_ten(o, t.dt, t.rank - 1, t.nb);
                    }
                    2 if t.rank >= 1 && t.dt == DType::F32 => {
                        let ax = idx(s[3], t.rank) as i64;
                        let keep = (s[4] % 2) as i64;
                        let axc = self.i64v(&[if s[5] % 2 == 0 { ax } else { ax - t.rank as i64 }]);
                        let op = ["ReduceSum", "ReduceMax", "ReduceMean"][idx(s[5], 3)];
                        let o = self.node(op, vec![t.name, axc], vec![("keepdims", Attr::Int(keep))], 1).remove(0);
                        self.add_ten(o, t.dt, if keep == 1 { t.rank } else { t.rank - 1 }, t.nb);
                    }
                    3 => {
                        let ax = idx(s[3], t.rank + 1) as i64;
                        let o = self.node("Flatten", vec![t.name], vec![("axis", Attr::Int(if s[4] % 3 == 0 && ax > 0 { ax - t.rank as i64 - 0 } else { ax }))], 1).remove(0);
                        self.add_ten(o, t.dt, 2, t.nb);
                    }
                    4 if t.rank >= 2 => {
                        let mut perm: Vec<i64> = (0..t.rank as i64).collect();
                        perm.rotate_left(1 + idx(s[3], t.rank - 1));
                        let attrs = if s[4] % 3 == 0 { vec![] } else { vec![("perm", Attr::Ints(perm))] };
                        let o = self.node("Transpose", vec![t.name], attrs, 1).remove(0);
                        self.add_ten(o, t.dt, t.rank, t.nb);
                    }
                    _ if t.rank >= 1 => {
                        let ax = idx(s[3], t.rank) as i64;
                        let ind = if s[4] % 2 == 0 { self.const_int(DType::I64, &[0], true) } else { self.const_int(DType::I64, &[0, -1], false) };
                        let o = self.node("Gather", vec![t.name, ind], vec![("axis", Attr::Int(ax))], 1).remove(0);
                        self.add_ten(o, t.dt, if s[4] % 2 == 0 { t.rank - 1 } else { t.rank }, t.nb * 2.0);
                    }
                    _ => {}
                }
            }
            _ => {
                // broadcasting binary op / Concat / Where between tensors
                let Some(a) = self.pick_ten(s[1], |t| t.dt == DType::F32) else { return };
                // broadcasting can multiply the element counts: keep the product small
                let Some(b) = self.pick_ten(s[2], |t| t.dt == DType::F32 && t.nb * a.nb <= 1.0e6) else { return };
                match s[3] % 4 {
                    0 if a.rank == b.rank && a.rank >= 1 => {
                        let ax = idx(s[4], a.rank) as i64;
                        let o = self.node("Concat", vec![a.name, b.name], vec![("axis", Attr::Int(if s[5] % 2 == 0 { ax } else { ax - a.rank as i64 }))], 1).remove(0);
                        self.add_ten(o, DType::F32, a.rank, a.nb + b.nb);
                    }
                    1 => {
                        let o = self.node("Greater", vec![a.name.clone(), b.name.clone()], vec![], 1).remove(0);
                        let w = self.node("Where", vec![o, a.name, b.name], vec![], 1).remove(0);
                        self.add_ten(w, DType::F32, a.rank.max(b.rank), a.nb * b.nb);
                    }
                    _ => {
                        let op = ["Add", "Mul", "Sub", "Max", "Pow"][idx(s[4], 5)];
                        let o = self.node(op, vec![a.name, b.name], vec![], 1).remove(0);
                        self.add_ten(o, DType::F32, a.rank.max(b.rank), a.nb * b.nb);
                    }
                }
            }
        }
    }
}

pub fn build(raw: &RawChain) -> ChainBuilt {
    let mut b = B { seed: raw.seed as u32, counter: 0, nodes: vec![], inits: vec![], tens: vec![], ivs: vec![], bools: vec![] };
    let sym_size = |k: usize| SIZES[(raw.sym_sizes[k] as usize) % SIZES.len()];
    let mut graph_inputs = Vec::new();
    let mut data = Vec::new();
    for (i, ri) in raw.inputs.iter().enumerate() {
        let rank = (ri.rank as usize).clamp(1, 4);
        let name = format!("in{i}");
        let mut dims = Vec::new();
        let mut shape = Vec::new();
        let big = if ri.big % 3 == 0 { Some(((ri.big as usize >> 2) % rank, BIG_DIMS[(ri.big as usize >> 4) % BIG_DIMS.len()])) } else { None };
        for d in 0..rank {
            let x = ri.dims[d] as usize;
            if let Some((pos, size)) = big {
                // keep the tensor small: every other dim is 0, 1 or 2
                if d == pos {
                    if ri.big & 2 != 0 {
                        dims.push(Dim::Sym(format!("big{size}")));
                    } else {
                        dims.push(Dim::Fixed(size as i64));
                    }
                    shape.push(size);
                } else {
                    let sz = if size > 600 { [1usize, 0, 1, 1][(x >> 2) % 4] } else { [1usize, 2, 0, 1][(x >> 2) % 4] };
                    dims.push(Dim::Fixed(sz as i64));
                    shape.push(sz);
                }
                continue;
            }
            if x & 3 >= 2 {
                let k = (x >> 2) % 4;
                dims.push(Dim::Sym(SYMS[k].to_string()));
                shape.push(sym_size(k));
            } else {
                let sz = [1usize, 2, 3, 4, 2, 1, 6, 3][(x >> 2) % 8];
                dims.push(Dim::Fixed(sz as i64));
                shape.push(sz);
            }
        }
        let dt = if ri.int { DType::I64 } else { DType::F32 };
        graph_inputs.push(ValueInfo::new(&name, dt, dims));
        let s = hash32(b.seed ^ 0x1234, i as u32);
        let tv = if ri.int {
            TVal::filled(dt, &shape, |k| (hash32(s, k as u32) % 4) as f64)
        } else {
            TVal::filled(dt, &shape, |k| ((hash32(s, k as u32) % 17) as i32 - 8) as f64 * 0.5)
        };
        data.push((name.clone(), tv));
        b.tens.push(Ten { name: name.clone(), dt, rank, nb: shape.iter().map(|d| (*d).max(1)).product::<usize>() as f64 });
        // a rank-1 integer input of fixed length is also a shape-carrying value with unknown elements
        if ri.int && rank == 1 {
            if let Dim::Fixed(l) = &graph_inputs.last().unwrap().shape.as_ref().unwrap()[0] {
                b.ivs.push(Iv { name, dt: DType::I64, len: Some(*l as usize), mag: 3.0 });
            }
        }
    }
    for s in &raw.steps {
        b.step(s);
    }
    // every node output is a graph output (the analysis does this as well; it
    // keeps the exported model meaningful on its own)
    let mut outputs = Vec::new();
    for n in &b.nodes {
        for o in &n.outputs {
            outputs.push(ValueInfo::untyped(o));
        }
    }
    if outputs.is_empty() {
        // no node: add an Identity so that the model has an output
        let o = b.node("Identity", vec!["in0".to_string()], vec![], 1).remove(0);
        outputs.push(ValueInfo::untyped(&o));
    }
    let op_types = b.nodes.iter().map(|n| n.op.clone()).collect();
    let graph = GraphDef { nodes: b.nodes, initializers: b.inits, inputs: graph_inputs, outputs, value_info: vec![] };
    ChainBuilt { model: ModelDef::new(graph), inputs: data, op_types }
}

//! Dedicated generator for the output-size arithmetic of convolution and
//! pooling shape inference.
//!
//! One model = input `x: f32[N, C, spatial...]` (1-d or 2-d; every dim fixed or
//! symbolic, spatial sizes 1..=12) -> MaxPool / AveragePool / Conv /
//! ConvTranspose with kernel 1..=4, stride 1..=3, dilation 1..=2 (convolutions
//! only: the loader rejects dilated pooling), explicit pads 0..=2 chosen
//! independently for begin and end of every axis, auto_pad NOTSET / VALID /
//! SAME_UPPER / SAME_LOWER, ceil_mode 0/1 and count_include_pad (pooling),
//! group 1/2, bias, output_padding (ConvTranspose) -> `Shape` of the result,
//! optionally a second pooling operator on the result. Attribute combinations
//! the operator rejects at run time are generated too; they simply produce no
//! value to compare.

use proptest::prelude::*;
use serde::{Deserialize, Serialize};
use vc_onnxgen::model::*;
use vc_onnxgen::TVal;

use crate::chain::ChainBuilt;
use crate::hash32;

#[derive(Clone, Debug, PartialEq, Serialize, Deserialize)]
pub struct RawPoolOp {
    /// 0 MaxPool, 1 AveragePool, 2 Conv, 3 ConvTranspose
    pub op: u8,
    pub kernel: [u8; 2],
    pub stride: [u8; 2],
    pub dilation: [u8; 2],
    /// begin0, begin1, end0, end1
    pub pads: [u8; 4],
    /// 0,1 NOTSET (pads attr), 2 pads attr omitted, 3 VALID, 4 SAME_UPPER, 5 SAME_LOWER
    pub auto_pad: u8,
    pub ceil: bool,
    pub misc: u8,
}

#[derive(Clone, Debug, PartialEq, Serialize, Deserialize)]
pub struct RawConvPool {
    pub two_d: bool,
    pub n: u8,
    pub c: u8,
    pub spatial: [u8; 2],
    /// bit d: dim d of the input is symbolic
    pub sym: u8,
    pub first: RawPoolOp,
    pub second: Option<RawPoolOp>,
    pub seed: u16,
}

fn raw_op(ops: std::ops::Range<u8>) -> impl Strategy<Value = RawPoolOp> {
    (ops, [1u8..=4, 1u8..=4], [1u8..=3, 1u8..=3], [1u8..=2, 1u8..=2], [0u8..=2, 0u8..=2, 0u8..=2, 0u8..=2], 0u8..6, any::<bool>(), any::<u8>())
        .prop_map(|(op, kernel, stride, dilation, pads, auto_pad, ceil, misc)| RawPoolOp { op, kernel, stride, dilation, pads, auto_pad, ceil, misc })
}

pub fn raw_conv_pool() -> impl Strategy<Value = RawConvPool> {
    (any::<bool>(), 1u8..=2, 1u8..=4, [1u8..=12, 1u8..=12], any::<u8>(), raw_op(0..4), proptest::option::of(raw_op(0..2)), any::<u16>())
        .prop_map(|(two_d, n, c, spatial, sym, first, second, seed)| RawConvPool { two_d, n, c, spatial, sym, first, second, seed })
}

#[derive(Clone, Debug, PartialEq, Serialize, Deserialize)]
pub enum ConvPoolCase {
    Raw(RawConvPool),
    Fixed(Box<ChainBuilt>),
}

impl ConvPoolCase {
    pub fn build(&self) -> ChainBuilt {
        match self {
            ConvPoolCase::Raw(r) => build(r),
            ConvPoolCase::Fixed(b) => (**b).clone(),
        }
    }
    pub fn export(&self) -> ConvPoolCase {
        ConvPoolCase::Fixed(Box::new(self.build()))
    }
}

struct B {
    nodes: Vec<NodeDef>,
    inits: Vec<(String, TensorLit)>,
    seed: u32,
    counter: usize,
}

impl B {
    fn weights(&mut self, shape: &[usize]) -> String {
        self.counter += 1;
        let name = format!("w{}", self.counter);
        let n: usize = shape.iter().product();
        let s = hash32(self.seed, self.counter as u32);
        let data: Vec<f32> = (0..n as u32).map(|i| ((hash32(s, i) % 9) as i32 - 4) as f32 * 0.25).collect();
        self.inits.push((name.clone(), TensorLit::f32(&shape.iter().map(|d| *d as i64).collect::<Vec<_>>(), data)));
        name
    }

    /// Append one operator; returns the output name and its channel count.
    fn op(&mut self, r: &RawPoolOp, x: &str, channels: usize, nd: usize, tag: &str) -> (String, usize) {
        let ints = |v: &[u8]| Attr::Ints(v[..nd].iter().map(|x| *x as i64).collect());
        let mut attrs: Vec<(String, Attr)> = vec![("kernel_shape".into(), ints(&r.kernel))];
        if r.misc & 1 == 0 || r.stride[..nd].iter().any(|s| *s != 1) {
            attrs.push(("strides".into(), ints(&r.stride)));
        }
        match r.auto_pad {
            0 | 1 => {
                let mut p: Vec<i64> = r.pads[..nd].iter().map(|x| *x as i64).collect();
                p.extend(r.pads[2..2 + nd].iter().map(|x| *x as i64));
                attrs.push(("pads".into(), Attr::Ints(p)));
                if r.auto_pad == 1 {
                    attrs.push(("auto_pad".into(), Attr::Str("NOTSET".into())));
                }
            }
            2 => {}
            3 => attrs.push(("auto_pad".into(), Attr::Str("VALID".into()))),
            4 => attrs.push(("auto_pad".into(), Attr::Str("SAME_UPPER".into()))),
            _ => attrs.push(("auto_pad".into(), Attr::Str("SAME_LOWER".into()))),
        }
        let out = format!("{tag}_y");
        let k: Vec<usize> = r.kernel[..nd].iter().map(|x| *x as usize).collect();
        let (op, inputs, out_ch) = match r.op {
            0 | 1 => {
                if r.ceil {
                    attrs.push(("ceil_mode".into(), Attr::Int(1)));
                }
                if r.op == 1 && r.misc & 2 != 0 {
                    attrs.push(("count_include_pad".into(), Attr::Int(1)));
                }
                (if r.op == 0 { "MaxPool" } else { "AveragePool" }, vec![x.to_string()], channels)
            }
            2 => {
                if r.dilation[..nd].iter().any(|d| *d != 1) || r.misc & 4 != 0 {
                    attrs.push(("dilations".into(), ints(&r.dilation)));
                }
                let group = if channels % 2 == 0 && r.misc & 8 != 0 { 2 } else { 1 };
                let m = group * (1 + (r.misc as usize >> 4) % 2);
                if group != 1 {
                    attrs.push(("group".into(), Attr::Int(group as i64)));
                }
                let mut wshape = vec![m, channels / group];
                wshape.extend(&k);
                let mut ins = vec![x.to_string(), self.weights(&wshape)];
                if r.misc & 64 != 0 {
                    ins.push(self.weights(&[m]));
                }
                ("Conv", ins, m)
            }
            _ => {
                if r.dilation[..nd].iter().any(|d| *d != 1) || r.misc & 4 != 0 {
                    attrs.push(("dilations".into(), ints(&r.dilation)));
                }
                let group = if channels % 2 == 0 && r.misc & 8 != 0 { 2 } else { 1 };
                let m_per_group = 1 + (r.misc as usize >> 4) % 2;
                if group != 1 {
                    attrs.push(("group".into(), Attr::Int(group as i64)));
                }
                if r.misc & 128 != 0 {
                    // output_padding must be smaller than the stride (or dilation)
                    let op: Vec<i64> = (0..nd).map(|d| ((r.misc as i64 >> (2 + d)) & 1).min(r.stride[d] as i64 - 1).max(0)).collect();
                    attrs.push(("output_padding".into(), Attr::Ints(op)));
                }
                let mut wshape = vec![channels, m_per_group];
                wshape.extend(&k);
                let mut ins = vec![x.to_string(), self.weights(&wshape)];
                if r.misc & 64 != 0 {
                    ins.push(self.weights(&[m_per_group * group]));
                }
                ("ConvTranspose", ins, m_per_group * group)
            }
        };
        self.nodes.push(NodeDef { op: op.to_string(), domain: String::new(), name: format!("{tag}_op"), inputs, outputs: vec![out.clone()], attrs });
        self.nodes.push(NodeDef::new("Shape", &format!("{tag}_shape"), &[&out], &[&format!("{tag}_s")]));
        (out, out_ch)
    }
}

const SYMS: [&str; 4] = ["n", "c", "h", "w"];

pub fn build(raw: &RawConvPool) -> ChainBuilt {
    let nd = if raw.two_d { 2 } else { 1 };
    let mut shape = vec![raw.n as usize, raw.c as usize];
    shape.extend(raw.spatial[..nd].iter().map(|s| *s as usize));
    let is_conv = raw.first.op >= 2;
    let dims: Vec<Dim> = shape
        .iter()
        .enumerate()
        .map(|(d, s)| {
            // the channel dim of a convolution input must match the weights: keep it fixed
            let symbolic = (raw.sym >> d) & 1 == 1 && !(d == 1 && is_conv);
            let name = if d < 2 { SYMS[d] } else { SYMS[2 + d - 2] };
            if symbolic {
                Dim::Sym(name.to_string())
            } else {
                Dim::Fixed(*s as i64)
            }
        })
        .collect();
    let mut b = B { nodes: vec![], inits: vec![], seed: raw.seed as u32, counter: 0 };
    let (y, ch) = b.op(&raw.first, "x", raw.c as usize, nd, "a");
    if let Some(second) = &raw.second {
        b.op(second, &y, ch, nd, "b");
    }
    let s = hash32(raw.seed as u32, 77);
    let data = TVal::filled(DType::F32, &shape, |i| ((hash32(s, i as u32) % 17) as i32 - 8) as f64 * 0.25);
    let mut outputs = Vec::new();
    for n in &b.nodes {
        for o in &n.outputs {
            outputs.push(ValueInfo::untyped(o));
        }
    }
    let op_types = b.nodes.iter().map(|n| n.op.clone()).collect();
    let graph = GraphDef { nodes: b.nodes, initializers: b.inits, inputs: vec![ValueInfo::new("x", DType::F32, dims)], outputs, value_info: vec![] };
    ChainBuilt { model: ModelDef::new(graph), inputs: vec![("x".to_string(), data)], op_types }
}

//! C10 — shape inference never contradicts execution.
//!
//! `analysis`: graph-level oracle (real `infer_shapes` driver + a replica of
//! the driver that keeps the symbolic expressions, a per-operator evaluator,
//! and the comparison of inferred facts with executed facts).
//! `chain`: dedicated generator of shape-computing chains.
//! `oplevel`: operator-level layer (one operator, symbolic input
//! descriptions consistent with a concrete instantiation).

pub mod analysis;
pub mod chain;
pub mod convpool;
pub mod oplevel;

/// Deterministic 32-bit mixer (no RNG: every choice is a function of the case).
pub fn hash32(a: u32, b: u32) -> u32 {
    let mut x = a.wrapping_mul(0x9E3779B1) ^ b.wrapping_add(0x7F4A7C15).wrapping_mul(0x85EBCA6B);
    x ^= x >> 15;
    x = x.wrapping_mul(0x2C1B3C6D);
    x ^= x >> 12;
    x = x.wrapping_mul(0x297A2D39);
    x ^= x >> 15;
    x
}

/// Intern a label (bounded set: clause names x operator names).
pub fn intern(s: &str) -> &'static str {
    use std::collections::BTreeMap;
    use std::sync::Mutex;
    static TABLE: Mutex<BTreeMap<String, &'static str>> = Mutex::new(BTreeMap::new());
    let mut t = TABLE.lock().unwrap();
    if let Some(v) = t.get(s) {
        return v;
    }
    let leaked: &'static str = Box::leak(s.to_string().into_boxed_str());
    t.insert(s.to_string(), leaked);
    leaked
}

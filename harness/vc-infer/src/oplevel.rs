//! Operator-level layer of C10.
//!
//! Every operator node of a generated model is taken on its own: its concrete
//! inputs are the values produced by the per-operator run of the model, and
//! its `InferShapes` impl is called with *symbolic descriptions* of those
//! inputs chosen by the case (not the descriptions the graph driver would
//! derive): fixed shape, shape with symbols for some or all dims (symbols
//! shared by equal sizes or unique per dim), element values as fixed numbers
//! (scalars / vectors of integers, float constants with integral values),
//! element values with symbols (as a `Shape` output would carry), or
//! unknown. Every description is consistent with the concrete instantiation:
//! the symbol table maps each symbol to the number it stands for.
//!
//! The inferred outputs are compared with the executed outputs by the same
//! comparison as the graph level (`analysis::check_inst`).

use std::collections::{BTreeMap, HashMap};

use rten::verif::graph::{Dimension, Graph, Node, TypedConstant};
use rten::verif::infer_shapes::{InferResult, Shape};
use rten::NodeId;
use rten_shape_inference::{InferShapesContext, SymExpr, SymTensor, Symbol, SymbolGen};
use vc_onnxgen::model::ModelDef;
use vc_onnxgen::{Config, TVal};

use crate::analysis::*;
use crate::hash32;

fn var(name: &str, positive: bool) -> SymExpr {
    SymExpr::Var(Symbol { name: name.to_string(), positive, synthetic: false }.into())
}

struct Describer<'a> {
    sel: u32,
    table: &'a mut BTreeMap<String, i64>,
}

impl Describer<'_> {
    fn size_sym(&mut self, n: usize) -> SymExpr {
        let name = format!("s{n}");
        self.table.insert(name.clone(), n as i64);
        var(&name, true)
    }
    fn elem_sym(&mut self, v: i64) -> SymExpr {
        if v >= 0 {
            self.size_sym(v as usize)
        } else {
            let name = format!("m{}", -v);
            self.table.insert(name.clone(), v);
            var(&name, false)
        }
    }
    fn unique_sym(&mut self, tag: &str, v: i64) -> SymExpr {
        self.table.insert(tag.to_string(), v);
        var(tag, v >= 0)
    }

    /// Symbolic description of one input.
    fn describe(&mut self, op_idx: usize, j: usize, t: &TVal, is_const: bool, is_float_const_ok: bool) -> (SymTensor, &'static str) {
        let h = hash32(self.sel, (op_idx as u32) << 8 | j as u32);
        let shape = t.shape().to_vec();
        let ints: Option<Vec<i64>> = match t {
            TVal::I32 { data, .. } if shape.len() <= 1 && data.len() <= 8 => Some(data.iter().map(|v| *v as i64).collect()),
            TVal::U8 { data, .. } if shape.len() <= 1 && data.len() <= 8 => Some(data.iter().map(|v| *v as i64).collect()),
            TVal::I8 { data, .. } if shape.len() <= 1 && data.len() <= 8 => Some(data.iter().map(|v| *v as i64).collect()),
            TVal::F32 { data, .. }
                if is_const && is_float_const_ok && shape.len() <= 1 && data.len() <= 8 && data.iter().all(|v| v.is_finite() && v.fract() == 0.0 && v.abs() < 1.0e6) =>
            {
                Some(data.iter().map(|v| *v as i64).collect())
            }
            _ => None,
        };
        let is_float = matches!(t, TVal::F32 { .. });
        let mut mode = h % 8;
        if ints.is_none() && (4..=6).contains(&mode) {
            mode = (h >> 4) % 4;
        }
        if is_float && mode == 6 {
            mode = 4;
        }
        // constants are always described the way the driver describes them in
        // half of the cases (their values and shapes are known exactly)
        if is_const && (h >> 8) % 2 == 0 {
            mode = if ints.is_some() { 4 } else { 0 };
        }
        match mode {
            0 => (SymTensor::from_fixed_shape(&shape), "desc:fixed-shape"),
            1 | 2 => {
                let dims = shape
                    .iter()
                    .enumerate()
                    .map(|(k, d)| if (h >> (12 + k)) & 1 == 1 || mode == 2 { self.size_sym(*d) } else { SymExpr::Value(*d as i32) })
                    .collect();
                (SymTensor::from_shape(dims), "desc:symbolic-shape-shared-symbols")
            }
            3 => {
                let dims = shape.iter().enumerate().map(|(k, d)| self.unique_sym(&format!("d{op_idx}_{j}_{k}"), *d as i64)).collect();
                (SymTensor::from_shape(dims), "desc:symbolic-shape-unique-symbols")
            }
            4 | 5 => {
                let v = ints.unwrap();
                if shape.is_empty() {
                    (SymTensor::from_scalar(SymExpr::Value(v[0] as i32)), "desc:fixed-values")
                } else {
                    (SymTensor::from_vec(v.iter().map(|x| SymExpr::Value(*x as i32)).collect()), "desc:fixed-values")
                }
            }
            6 => {
                let v = ints.unwrap();
                let elems: Vec<SymExpr> = v
                    .iter()
                    .enumerate()
                    .map(|(k, x)| match (h >> (12 + 2 * k)) & 3 {
                        0 => SymExpr::Value(*x as i32),
                        1 => self.unique_sym(&format!("e{op_idx}_{j}_{k}"), *x),
                        _ => self.elem_sym(*x),
                    })
                    .collect();
                if shape.is_empty() {
                    (SymTensor::from_scalar(elems[0].clone()), "desc:symbolic-values")
                } else {
                    (SymTensor::from_vec(elems), "desc:symbolic-values")
                }
            }
            _ => (SymTensor::unknown("oplevel"), "desc:unknown"),
        }
    }
}

fn const_tval(graph: &Graph, id: NodeId) -> Option<TVal> {
    match graph.get_node(id) {
        Some(Node::Constant(c)) => Some(TVal::from_value(&c.as_view().to_owned())),
        _ => None,
    }
}

fn is_float_const(graph: &Graph, id: NodeId) -> bool {
    match graph.get_node(id) {
        Some(Node::Constant(c)) => {
            let v: Option<rten_tensor::TensorView<f32>> = c.as_typed_view();
            v.is_some()
        }
        _ => false,
    }
}

/// Operator-level analysis of every operator node of `model`, for `variants`
/// different choices of input descriptions.
pub fn analyse_ops(model: &ModelDef, inputs: &[(String, TVal)], sels: &[u32]) -> Report {
    let mut rep = Report::default();
    let m = all_outputs_model(model);
    let bytes = m.encode();
    let plain = match vcore::catch(|| Config::Plain.load(&bytes)) {
        Ok(Ok(p)) => p,
        _ => {
            rep.label("load-failed");
            return rep;
        }
    };
    let graph = plain.verif_graph();
    let Ok(order) = plan(graph) else {
        rep.label("plan-failed");
        return rep;
    };
    let Ok(ex) = exec_per_op(graph, &order, inputs) else {
        return rep;
    };
    if ex.values.is_empty() {
        rep.label("nothing-ran");
        return rep;
    }
    let input_vals: BTreeMap<NodeId, &TVal> = inputs.iter().filter_map(|(n, t)| graph.get_node_id(n).map(|id| (id, t))).collect();

    for sel in sels {
        let mut table: BTreeMap<String, i64> = BTreeMap::new();
        let mut sym_gen = SymbolGen::new();
        let mut values: HashMap<NodeId, SymTensor> = HashMap::new();
        for (op_idx, op_id) in order.iter().enumerate() {
            let Some(Node::Operator(op)) = graph.get_node(*op_id) else { continue };
            let Some(infer) = op.operator().as_infer_shapes() else {
                rep.label(&format!("no-inference:{}", op.operator().name()));
                continue;
            };
            // only operators that ran
            if !op.output_ids().iter().flatten().any(|o| ex.values.contains_key(o)) {
                continue;
            }
            let mut d = Describer { sel: *sel, table: &mut table };
            let mut descs: Vec<Option<SymTensor>> = Vec::new();
            let mut ok = true;
            for (j, i) in op.input_ids().iter().enumerate() {
                match i {
                    None => descs.push(None),
                    Some(id) => {
                        let c = const_tval(graph, *id);
                        let t: Option<&TVal> = c.as_ref().or_else(|| ex.values.get(id)).or_else(|| input_vals.get(id).copied());
                        match t {
                            Some(TVal::Other(_)) | None => {
                                // sequences etc.: no description
                                ok = ok && t.is_some();
                                descs.push(Some(SymTensor::unknown("non-tensor")));
                            }
                            Some(t) => {
                                let (st, label) = d.describe(op_idx, j, t, c.is_some(), is_float_const(graph, *id));
                                rep.label(label);
                                descs.push(Some(st));
                            }
                        }
                    }
                }
            }
            if !ok {
                continue;
            }
            let name = op.operator().name().to_string();
            match vcore::catch(|| infer.infer_shapes(InferShapesContext::new(&descs), &mut sym_gen)) {
                Ok(Ok(outs)) => {
                    rep.label(&format!("oplevel-inferred:{name}"));
                    for (oid, t) in op.output_ids().iter().zip(outs) {
                        if let Some(oid) = oid {
                            // the driver simplifies what it stores
                            match vcore::catch(|| t.clone().simplify()) {
                                Ok(s) => {
                                    // Symbolic element values are integers. For a float
                                    // output only the shape part of the claim is used at
                                    // this level (what the driver makes of float values is
                                    // checked at the graph level).
                                    let float_out = matches!(ex.values.get(oid), Some(TVal::F32 { .. }));
                                    let shape_only: Option<Vec<SymExpr>> =
                                        if float_out && s.values().is_some() { s.shape().map(|d| d.collect()) } else { None };
                                    let s = match shape_only {
                                        Some(dims) => SymTensor::from_shape(dims),
                                        None => s,
                                    };
                                    values.insert(*oid, s);
                                }
                                Err(p) => rep.fail(
                                    format!("infer-panic:{}", p.signature()),
                                    format!("simplify() of the inferred output {t:?} of {name} panicked: {} at {}", p.msg, p.loc()),
                                ),
                            }
                        }
                    }
                }
                Ok(Err(_)) => {
                    // "inference returning Err is always acceptable" — but note it: the operator ran
                    rep.label(&format!("oplevel-infer-err:{name}"));
                }
                Err(p) => rep.fail(
                    format!("infer-panic:{}", p.signature()),
                    format!("{name}.infer_shapes({descs:?}) panicked: {} at {} (the operator itself runs on inputs matching this description)", p.msg, p.loc()),
                ),
            }
        }
        // render like the driver and compare with the shared comparison
        let mut constants = Vec::new();
        let mut shapes = HashMap::new();
        for (id, t) in &values {
            if let Some(c) = t.to_constant() {
                constants.push(c);
                shapes.insert(*id, Shape::Constant { index: constants.len() - 1 });
            } else if let Some(dims) = t.shape() {
                shapes.insert(
                    *id,
                    Shape::Shape(
                        dims.map(|d| match d {
                            SymExpr::Value(v) if v >= 0 => Dimension::Fixed(v as usize),
                            d => Dimension::Symbolic(d.to_string()),
                        })
                        .collect(),
                    ),
                );
            }
        }
        let real = InferResult { constants, shapes, types: HashMap::new() };
        let inst = Inst { assign: table, inputs: inputs.to_vec(), has_zero: false };
        let facts = GraphFacts { graph, order: &order, real: &real, replica: &values, mode: "operator-level", independent_ops: true };
        let before = rep.labels.len();
        check_inst(&facts, &ex, &inst, &mut rep);
        let _ = before;
    }
    rep
}

//! C10 — shape inference never contradicts execution.

use proptest::prelude::*;
use serde::{Deserialize, Serialize};
use vc_infer::analysis::*;
use vc_infer::chain::*;
use vc_infer::convpool::*;
use vc_infer::oplevel::analyse_ops;
use vc_onnxgen::grammar::*;
use vc_onnxgen::Tol;
use vcore::{Check, Verdict};

/// Float tolerance for the end-to-end clause (same as C01: fused kernels
/// re-order float operations; a wrong substituted constant changes results by O(1)).
const TOL: Tol = Tol { rtol: 2e-3, atol: 2e-4 };

#[derive(Clone, Debug, Serialize, Deserialize)]
struct GCase {
    g: GraphCase,
    /// seeds of the alternate instantiations of the symbolic dims
    inst: Vec<u32>,
}

fn graph_oracle(profile: &Profile, known: &[String], c: &GCase, e2e: bool) -> Verdict {
    let built = c.g.build(profile);
    let orig = match original_inst(&built.model, &built.inputs) {
        Ok(o) => o,
        Err(e) => return Verdict::fail("harness:generator-inconsistent", e),
    };
    let mut insts = vec![orig.clone()];
    if !orig.assign.is_empty() {
        for s in &c.inst {
            insts.push(alternate_inst(&built.model, &orig, *s));
        }
    }
    let rep = analyse(&built.model, &insts, &Options { end_to_end: e2e, tol: TOL });
    verdict(rep, known)
}

#[derive(Clone, Debug, Serialize, Deserialize)]
struct CCase {
    g: ChainCase,
    inst: Vec<u32>,
}

fn chain_oracle(known: &[String], c: &CCase) -> Verdict {
    let built = c.g.build();
    let orig = match original_inst(&built.model, &built.inputs) {
        Ok(o) => o,
        Err(e) => return Verdict::fail("harness:generator-inconsistent", e),
    };
    let mut insts = vec![orig.clone()];
    if !orig.assign.is_empty() {
        for s in &c.inst {
            insts.push(alternate_inst(&built.model, &orig, *s));
        }
    }
    let mut rep = analyse(&built.model, &insts, &Options { end_to_end: true, tol: TOL });
    for op in &built.op_types {
        rep.label(&format!("chain-op:{op}"));
    }
    for n in &built.model.graph.nodes {
        if n.op == "Cast" {
            if let Some((_, vc_onnxgen::model::Attr::Int(to))) = n.attrs.iter().find(|(k, _)| k == "to") {
                match to {
                    2 => rep.label("chain:cast-to-uint8"),
                    3 => rep.label("chain:cast-to-int8"),
                    9 => rep.label("chain:cast-to-bool"),
                    _ => {}
                }
            }
        }
    }
    if built.inputs.iter().any(|(_, t)| t.shape().iter().any(|d| *d >= 127)) {
        rep.label("chain:dim>=127");
    }
    if built.inputs.iter().any(|(_, t)| t.shape().iter().any(|d| *d >= 256)) {
        rep.label("chain:dim>=256");
    }
    verdict(rep, known)
}

fn op_oracle(profile: &Profile, known: &[String], c: &GCase) -> Verdict {
    let built = c.g.build(profile);
    let rep = analyse_ops(&built.model, &built.inputs, &c.inst);
    verdict(rep, known)
}

fn op_chain_oracle(known: &[String], c: &CCase) -> Verdict {
    let built = c.g.build();
    let rep = analyse_ops(&built.model, &built.inputs, &c.inst);
    verdict(rep, known)
}

#[derive(Clone, Debug, Serialize, Deserialize)]
struct PCase {
    g: ConvPoolCase,
    inst: Vec<u32>,
}

/// Sizes for the alternate instantiations of conv/pool inputs (spatial sizes up to 12).
const CP_SIZES: [i64; 14] = [1, 2, 3, 4, 5, 6, 7, 8, 9, 10, 11, 12, 0, 1];

fn cp_labels(built: &ChainBuilt, rep: &mut Report) {
    use vc_onnxgen::model::Attr;
    for n in &built.model.graph.nodes {
        if n.op == "Shape" {
            continue;
        }
        let get = |k: &str| n.attrs.iter().find(|(a, _)| a == k).map(|(_, v)| v.clone());
        let nd = match get("kernel_shape") {
            Some(Attr::Ints(k)) => k.len(),
            _ => 0,
        };
        rep.label(if nd == 1 { "cp:1-d" } else { "cp:2-d" });
        let ceil = matches!(get("ceil_mode"), Some(Attr::Int(1)));
        let begin_pad = match get("pads") {
            Some(Attr::Ints(p)) => p[..nd].iter().any(|x| *x > 0),
            _ => false,
        };
        let asym = match get("pads") {
            Some(Attr::Ints(p)) => (0..nd).any(|d| p[d] != p[d + nd]),
            _ => false,
        };
        if ceil {
            rep.label(if begin_pad { "cp:ceil_mode+begin-padding" } else { "cp:ceil_mode" });
        }
        if asym {
            rep.label("cp:asymmetric-pads");
        }
        match get("auto_pad") {
            Some(Attr::Str(s)) => rep.label(&format!("cp:auto_pad={s}")),
            _ => rep.label("cp:auto_pad-absent"),
        }
        if matches!(get("dilations"), Some(Attr::Ints(d)) if d.iter().any(|x| *x > 1)) {
            rep.label("cp:dilated");
        }
        if matches!(get("strides"), Some(Attr::Ints(d)) if d.iter().any(|x| *x > 1)) {
            rep.label("cp:strided");
        }
    }
}

fn cp_graph_oracle(known: &[String], c: &PCase) -> Verdict {
    let built = c.g.build();
    let orig = match original_inst(&built.model, &built.inputs) {
        Ok(o) => o,
        Err(e) => return Verdict::fail("harness:generator-inconsistent", e),
    };
    let mut insts = vec![orig.clone()];
    if !orig.assign.is_empty() {
        for s in &c.inst {
            insts.push(alternate_inst_sizes(&built.model, &orig, *s, &CP_SIZES));
        }
    }
    let mut rep = analyse(&built.model, &insts, &Options { end_to_end: true, tol: TOL });
    cp_labels(&built, &mut rep);
    verdict(rep, known)
}

fn cp_op_oracle(known: &[String], c: &PCase) -> Verdict {
    let built = c.g.build();
    let mut rep = analyse_ops(&built.model, &built.inputs, &c.inst);
    cp_labels(&built, &mut rep);
    verdict(rep, known)
}

fn shape_profile() -> Profile {
    use Family::*;
    let mut p = Profile::general();
    for (w, f) in p.families.iter_mut() {
        *w = match f {
            Shape => 8,
            ShapeArith => 12,
            ConstantOfShape => 3,
            Reshape | Expand | Tile | Slice | Concat | Gather | Squeeze | Unsqueeze | Flatten | Transpose | Split | Pad => 3,
            Cast | BinaryI | UnaryI | Compare | Where => 3,
            _ => 1,
        };
    }
    p
}

fn main() {
    let mut ck = Check::new("C10");
    ck.rule(
        "Graph level (sub-checks graph-general, graph-shape-biased, shape-chains): a case is a generated ONNX model plus seeds of 2 \
         alternate instantiations of its symbolic input dims (same symbol = same size everywhere; sizes 0..6 with 0 and 1 frequent). \
         Models come from the typed vc-onnxgen grammar (general profile and a profile weighted towards Shape/ShapeArith/Reshape/Slice/...) \
         and from a dedicated generator of shape-computing chains (Shape/Size/constants incl. negative, zero and integral floats -> \
         Gather/Unsqueeze/Squeeze/Concat/Add/Sub/Mul/Div/Min/Max/Neg/Abs/Equal/Where/Cast/Identity/Slice/Reshape -> sinks Reshape/Expand/\
         ConstantOfShape/Range/Tile/Slice/Pad/TopK/OneHot/Resize/Split/Squeeze/Unsqueeze/Reduce*/Flatten/Transpose/Gather/Concat/binary ops, \
         whose outputs feed Shape again). Every named value is made a graph output, the model is loaded without optimisation, \
         infer_shapes() is called with the loader's On and Strict options, every operator is run with Operator::run for each \
         instantiation, and each produced value is compared with what inference said about it (rank, fixed dims, symbol consistency, \
         evaluated symbolic dim/element expressions, Shape::Constant elements, dtype); then the same bytes are loaded optimised with \
         shape inference off and on and all outputs compared. Operator level (operator-level-*): every operator node of a model \
         (all-ops grammar profile / shape chains) is inferred on its own from case-chosen symbolic descriptions of its concrete inputs \
         (fixed shape, symbols for some/all dims, fixed element values, symbolic element values, unknown), 3 description variants per model. \
         Sub-checks conv-pool-*: one-input models x:f32[N,C,spatial..] (1-d/2-d, dims fixed or symbolic, spatial 1..12) -> \
         MaxPool/AveragePool/Conv/ConvTranspose with kernel 1..4, stride 1..3, dilation 1..2 (convolutions), independent begin/end pads 0..2, \
         auto_pad NOTSET/VALID/SAME_UPPER/SAME_LOWER/absent, ceil_mode, count_include_pad, group, bias, output_padding -> Shape, optionally a second \
         pooling op; checked at graph level (alternate sizes 0..12) and at operator level. \
         Non-trivial = execution produced a value for which inference reported at least one fixed number (dim, constant element) \
         or an expression/symbol that evaluated, and it was compared. Distinct = distinct raw case.",
    );
    ck.assume("an operator that fails or panics at run time imposes no requirement (values downstream are simply absent)");
    ck.assume("symbolic expressions are evaluated with SymExpr::eval under the instantiation's symbol assignment plus synthetic symbols learned from the first dim/element they name; an expression that does not evaluate (division by zero, overflow, unknown symbol) imposes no requirement");
    ck.assume("the harness's replica of the graph driver (same InferShapes impls, same constant conversion) is used for symbolic expressions only where its rendering equals the real driver's result for that value");
    ck.assume("end-to-end clause compares optimised models with shape inference off vs on (rtol 2e-3 / atol 2e-4 for floats, ints exact) so that optimiser defects unrelated to inference are not attributed to C10; values computed from empty tensors and values downstream of an already reported violation are excluded from the value comparison");
    ck.assume("operator level: symbolic element values are only given for integer tensors and for float *constants* with integral values (what the loader feeds to inference); for float outputs only the shape part of an inferred value is compared at this level");
    ck.set_threads(12);
    let known = known_signatures();
    let n = ck.pick(6000, 180_000);
    let strat = || (raw_graph(3, 14).prop_map(GraphCase::Raw), proptest::collection::vec(any::<u32>(), 2)).prop_map(|(g, inst)| GCase { g, inst });
    let general = Profile::general();
    ck.prop_export("graph-general", n, strat, |c| graph_oracle(&general, &known, c, true), |c| GCase { g: c.g.export(&general), inst: c.inst.clone() });
    let sp = shape_profile();
    ck.prop_export("graph-shape-biased", n, strat, |c| graph_oracle(&sp, &known, c, true), |c| GCase { g: c.g.export(&sp), inst: c.inst.clone() });
    let cstrat = || (raw_chain(16).prop_map(ChainCase::Raw), proptest::collection::vec(any::<u32>(), 2)).prop_map(|(g, inst)| CCase { g, inst });
    ck.prop_export("shape-chains", ck.pick(16_000, 480_000), cstrat, |c| chain_oracle(&known, c), |c| CCase { g: c.g.export(), inst: c.inst.clone() });
    // operator level
    let all = Profile::all_ops();
    let ostrat = || (raw_graph(3, 10).prop_map(GraphCase::Raw), proptest::collection::vec(any::<u32>(), 3)).prop_map(|(g, inst)| GCase { g, inst });
    ck.prop_export("operator-level-all-ops", ck.pick(5000, 150_000), ostrat, |c| op_oracle(&all, &known, c), |c| GCase { g: c.g.export(&all), inst: c.inst.clone() });
    let cstrat3 = || (raw_chain(12).prop_map(ChainCase::Raw), proptest::collection::vec(any::<u32>(), 3)).prop_map(|(g, inst)| CCase { g, inst });
    ck.prop_export("operator-level-shape-chains", ck.pick(6000, 180_000), cstrat3, |c| op_chain_oracle(&known, c), |c| CCase { g: c.g.export(), inst: c.inst.clone() });
    // convolution / pooling output-size arithmetic
    let pstrat = || (raw_conv_pool().prop_map(ConvPoolCase::Raw), proptest::collection::vec(any::<u32>(), 2)).prop_map(|(g, inst)| PCase { g, inst });
    ck.prop_export("conv-pool-graph", ck.pick(6000, 180_000), pstrat, |c| cp_graph_oracle(&known, c), |c| PCase { g: c.g.export(), inst: c.inst.clone() });
    let pstrat3 = || (raw_conv_pool().prop_map(ConvPoolCase::Raw), proptest::collection::vec(any::<u32>(), 3)).prop_map(|(g, inst)| PCase { g, inst });
    ck.prop_export("conv-pool-operator-level", ck.pick(4000, 120_000), pstrat3, |c| cp_op_oracle(&known, c), |c| PCase { g: c.g.export(), inst: c.inst.clone() });
    ck.finish();
}

//! C10 — shape inference never contradicts execution.

use proptest::prelude::*;
use serde::{Deserialize, Serialize};
use vc_infer::analysis::*;
use vc_infer::chain::*;
use vc_infer::oplevel::analyse_ops;
use vc_onnxgen::grammar::*;
use vc_onnxgen::Tol;
use vcore::{Check, Verdict};

/// Float tolerance for the end-to-end clause (same as C01: fused kernels
/// re-order float operations; a wrong substituted constant changes results by O(1)).
const TOL: Tol = Tol { rtol: 2e-3, atol: 2e-4 };

#[derive(Clone, Debug, Serialize, Deserialize)]
struct GCase {
    g: GraphCase,
    /// seeds of the alternate instantiations of the symbolic dims
    inst: Vec<u32>,
}

fn graph_oracle(profile: &Profile, known: &[String], c: &GCase, e2e: bool) -> Verdict {
    let built = c.g.build(profile);
    let orig = match original_inst(&built.model, &built.inputs) {
        Ok(o) => o,
        Err(e) => return Verdict::fail("harness:generator-inconsistent", e),
    };
    let mut insts = vec![orig.clone()];
    if !orig.assign.is_empty() {
        for s in &c.inst {
            insts.push(alternate_inst(&built.model, &orig, *s));
        }
    }
    let rep = analyse(&built.model, &insts, &Options { end_to_end: e2e, tol: TOL });
    verdict(rep, known)
}

#[derive(Clone, Debug, Serialize, Deserialize)]
struct CCase {
    g: ChainCase,
    inst: Vec<u32>,
}

fn chain_oracle(known: &[String], c: &CCase) -> Verdict {
    let built = c.g.build();
    let orig = match original_inst(&built.model, &built.inputs) {
        Ok(o) => o,
        Err(e) => return Verdict::fail("harness:generator-inconsistent", e),
    };
    let mut insts = vec![orig.clone()];
    if !orig.assign.is_empty() {
        for s in &c.inst {
            insts.push(alternate_inst(&built.model, &orig, *s));
        }
    }
    let mut rep = analyse(&built.model, &insts, &Options { end_to_end: true, tol: TOL });
    for op in &built.op_types {
        rep.label(&format!("chain-op:{op}"));
    }
    verdict(rep, known)
}

fn op_oracle(profile: &Profile, known: &[String], c: &GCase) -> Verdict {
    let built = c.g.build(profile);
    let rep = analyse_ops(&built.model, &built.inputs, &c.inst);
    verdict(rep, known)
}

fn op_chain_oracle(known: &[String], c: &CCase) -> Verdict {
    let built = c.g.build();
    let rep = analyse_ops(&built.model, &built.inputs, &c.inst);
    verdict(rep, known)
}

fn shape_profile() -> Profile {
    use Family::*;
    let mut p = Profile::general();
    for (w, f) in p.families.iter_mut() {
        *w = match f {
            Shape => 8,
            ShapeArith => 12,
            ConstantOfShape => 3,
            Reshape | Expand | Tile | Slice | Concat | Gather | Squeeze | Unsqueeze | Flatten | Transpose | Split | Pad => 3,
            Cast | BinaryI | UnaryI | Compare | Where => 3,
            _ => 1,
        };
    }
    p
}

fn main() {
    let mut ck = Check::new("C10");
    ck.rule("TODO");
    ck.set_threads(12);
    let known = known_signatures();
    let n = ck.pick(8000, 240_000);
    let strat = || (raw_graph(3, 14).prop_map(GraphCase::Raw), proptest::collection::vec(any::<u32>(), 2)).prop_map(|(g, inst)| GCase { g, inst });
    let general = Profile::general();
    ck.prop_export("graph-general", n, strat, |c| graph_oracle(&general, &known, c, true), |c| GCase { g: c.g.export(&general), inst: c.inst.clone() });
    let sp = shape_profile();
    ck.prop_export("graph-shape-biased", n, strat, |c| graph_oracle(&sp, &known, c, true), |c| GCase { g: c.g.export(&sp), inst: c.inst.clone() });
    let cstrat = || (raw_chain(16).prop_map(ChainCase::Raw), proptest::collection::vec(any::<u32>(), 2)).prop_map(|(g, inst)| CCase { g, inst });
    ck.prop_export("shape-chains", ck.pick(24_000, 720_000), cstrat, |c| chain_oracle(&known, c), |c| CCase { g: c.g.export(), inst: c.inst.clone() });
    // operator level
    let all = Profile::all_ops();
    let ostrat = || (raw_graph(3, 10).prop_map(GraphCase::Raw), proptest::collection::vec(any::<u32>(), 3)).prop_map(|(g, inst)| GCase { g, inst });
    ck.prop_export("operator-level-all-ops", ck.pick(6000, 180_000), ostrat, |c| op_oracle(&all, &known, c), |c| GCase { g: c.g.export(&all), inst: c.inst.clone() });
    let cstrat3 = || (raw_chain(12).prop_map(ChainCase::Raw), proptest::collection::vec(any::<u32>(), 3)).prop_map(|(g, inst)| CCase { g, inst });
    ck.prop_export("operator-level-shape-chains", ck.pick(8000, 240_000), cstrat3, |c| op_chain_oracle(&known, c), |c| CCase { g: c.g.export(), inst: c.inst.clone() });
    ck.finish();
}

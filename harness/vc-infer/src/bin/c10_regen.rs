//! Development aid: (re)writes the hand-made minimal regression cases for the
//! C10 findings to /verif/regressions/C10/known-*.json (sub-check
//! `shape-chains`, self-contained `ChainCase::Fixed` models).

use serde_json::json;
use vc_infer::chain::{ChainBuilt, ChainCase};
use vc_onnxgen::model::*;
use vc_onnxgen::TVal;

struct M {
    nodes: Vec<NodeDef>,
    inits: Vec<(String, TensorLit)>,
    inputs: Vec<ValueInfo>,
    data: Vec<(String, TVal)>,
}

impl M {
    fn new() -> M {
        M { nodes: vec![], inits: vec![], inputs: vec![], data: vec![] }
    }
    fn input_f32(&mut self, name: &str, dims: Vec<Dim>, shape: &[usize]) {
        self.inputs.push(ValueInfo::new(name, DType::F32, dims));
        self.data.push((name.to_string(), TVal::filled(DType::F32, shape, |i| i as f64 * 0.5 - 1.0)));
    }
    fn input_i64(&mut self, name: &str, dims: Vec<Dim>, shape: &[usize], v: i64) {
        self.inputs.push(ValueInfo::new(name, DType::I64, dims));
        self.data.push((name.to_string(), TVal::filled(DType::I64, shape, |_| v as f64)));
    }
    fn ki(&mut self, name: &str, dims: &[i64], vals: &[i64]) {
        self.inits.push((name.to_string(), TensorLit::i64(dims, vals.to_vec())));
    }
    fn kf(&mut self, name: &str, dims: &[i64], vals: &[f32]) {
        self.inits.push((name.to_string(), TensorLit::f32(dims, vals.to_vec())));
    }
    fn node(&mut self, op: &str, ins: &[&str], outs: &[&str], attrs: Vec<(&str, Attr)>) {
        let mut n = NodeDef::new(op, &format!("n{}", self.nodes.len()), ins, outs);
        for (k, v) in attrs {
            n = n.attr(k, v);
        }
        self.nodes.push(n);
    }
    fn finish(self) -> ChainBuilt {
        let mut outputs = Vec::new();
        for n in &self.nodes {
            for o in &n.outputs {
                outputs.push(ValueInfo::untyped(o));
            }
        }
        let op_types = self.nodes.iter().map(|n| n.op.clone()).collect();
        let graph = GraphDef { nodes: self.nodes, initializers: self.inits, inputs: self.inputs, outputs, value_info: vec![] };
        ChainBuilt { model: ModelDef::new(graph), inputs: self.data, op_types }
    }
}

fn sym(s: &str) -> Dim {
    Dim::Sym(s.to_string())
}

fn main() {
    let mut cases: Vec<(&str, &str, ChainBuilt)> = Vec::new();

    let mut m = M::new();
    m.input_f32("x", vec![Dim::Fixed(1)], &[1]);
    m.kf("c1", &[], &[3.0]);
    m.kf("c7", &[], &[4.0]);
    m.node("Div", &["c1", "c7"], &["v"], vec![]);
    cases.push(("float-div", "constant:Div:f32", m.finish()));

    let mut m = M::new();
    m.input_f32("x", vec![Dim::Fixed(1)], &[1]);
    m.kf("k1", &[], &[-3.0]);
    m.kf("k2", &[1], &[0.0]);
    m.node("Mul", &["k1", "k2"], &["v"], vec![]);
    m.node("Div", &["k1", "v"], &["w"], vec![]);
    cases.push(("float-negative-zero", "constant:f32:negative-zero", m.finish()));

    let mut m = M::new();
    m.input_f32("x", vec![sym("n")], &[0]);
    m.input_f32("y", vec![sym("m")], &[1]);
    m.node("Add", &["x", "y"], &["v"], vec![]);
    m.node("Shape", &["v"], &["s"], vec![]);
    cases.push(("broadcast-zero-one", "eval:Broadcast:zero-vs-one", m.finish()));

    let mut m = M::new();
    m.input_f32("x", vec![Dim::Fixed(1)], &[1]);
    m.ki("k", &[], &[1]);
    m.ki("z", &[], &[-3]);
    m.node("Equal", &["k", "k"], &["e"], vec![]);
    m.node("Where", &["e", "k", "z"], &["v"], vec![]);
    cases.push(("where-scalars", "shape:Where:all-scalar-inputs", m.finish()));

    let mut m = M::new();
    m.input_f32("x", vec![Dim::Fixed(1)], &[1]);
    m.ki("k", &[1], &[2]);
    m.ki("z", &[], &[-2]);
    m.node("Cast", &["k"], &["c"], vec![("to", Attr::Int(9))]);
    m.node("Where", &["c", "k", "z"], &["v"], vec![]);
    cases.push(("where-cond-2", "value:Where:cond-not-0-or-1", m.finish()));

    let mut m = M::new();
    m.input_f32("x", vec![Dim::Fixed(1), sym("h")], &[1, 2]);
    m.ki("st", &[1], &[1]);
    m.ki("en", &[1], &[0]);
    m.ki("ax", &[1], &[1]);
    m.node("Slice", &["x", "st", "en", "ax"], &["v"], vec![]);
    cases.push(("slice-start-after-end", "dim-negative:Slice", m.finish()));

    let mut m = M::new();
    m.input_f32("x", vec![sym("h")], &[0]);
    m.ki("i0", &[], &[0]);
    m.ki("one", &[], &[1]);
    m.node("Shape", &["x"], &["s"], vec![]);
    m.node("Gather", &["s", "i0"], &["g"], vec![("axis", Attr::Int(0))]);
    m.node("Range", &["one", "g", "one"], &["v"], vec![]);
    cases.push(("range-limit-below-start", "dim-negative:Range", m.finish()));

    let mut m = M::new();
    m.input_f32("x", vec![Dim::Fixed(3)], &[3]);
    m.ki("mx", &[1], &[i32::MAX as i64]);
    m.ki("ax", &[1], &[0]);
    m.ki("stp", &[1], &[-1]);
    m.node("Shape", &["x"], &["s"], vec![]);
    m.node("Slice", &["s", "mx", "mx", "ax", "stp"], &["v"], vec![]);
    cases.push(("slice-int-max-negative-step", "shape:Slice:negative-step-end-INT_MAX", m.finish()));

    let mut m = M::new();
    m.input_i64("s", vec![Dim::Fixed(2)], &[2], 1);
    m.ki("m1", &[1], &[-1]);
    m.node("Concat", &["m1", "s"], &["c"], vec![("axis", Attr::Int(0))]);
    m.node("Reshape", &["s", "c"], &["x"], vec![]);
    m.node("Expand", &["x", "s"], &["v"], vec![]);
    cases.push(("expand-panic", "infer-panic:...layout.rs", m.finish()));

    let mut m = M::new();
    m.input_f32("x", vec![Dim::Fixed(1)], &[1]);
    m.ki("k", &[1], &[-3]);
    m.node("ConstantOfShape", &["k"], &["c"], vec![]);
    m.node("Slice", &["c", "k", "k"], &["v"], vec![]);
    cases.push(("slice-negative-dim-panic", "infer-panic:...slice_range.rs", m.finish()));

    let mut m = M::new();
    m.input_f32("x", vec![Dim::Fixed(3), sym("batch")], &[3, 1]);
    m.input_f32("y", vec![sym("seq")], &[0]);
    m.ki("m1", &[1], &[-1]);
    m.node("Shape", &["y"], &["s"], vec![]);
    m.node("Concat", &["m1", "s"], &["c"], vec![("axis", Attr::Int(0))]);
    m.node("Reshape", &["x", "c"], &["v"], vec![]);
    cases.push(("reshape-symbolic-zero", "shape:Reshape:symbolic-size-is-0-or-minus-1-at-run-time", m.finish()));

    let mut m = M::new();
    m.input_f32("x", vec![sym("h")], &[1]);
    m.input_f32("e", vec![Dim::Fixed(1), Dim::Fixed(1)], &[1, 1]);
    m.node("Pow", &["x", "e"], &["v"], vec![]);
    cases.push(("pow-exponent-rank", "shape:Pow:one-element-exponent-of-higher-rank", m.finish()));

    let pool = |shape: &[usize], dims: Vec<Dim>, k: i64, st: i64, pads: [i64; 2]| {
        let mut m = M::new();
        m.input_f32("x", dims, shape);
        m.node(
            "MaxPool",
            &["x"],
            &["y"],
            vec![("kernel_shape", Attr::Ints(vec![k])), ("strides", Attr::Ints(vec![st])), ("pads", Attr::Ints(pads.to_vec())), ("ceil_mode", Attr::Int(1))],
        );
        m.node("Shape", &["y"], &["s"], vec![]);
        m.finish()
    };
    cases.push((
        "pool-ceil-end-padding",
        "shape:Pool:ceil_mode-window-entirely-in-end-padding",
        pool(&[1, 1, 1], vec![Dim::Fixed(1), Dim::Fixed(1), Dim::Fixed(1)], 1, 1, [0, 2]),
    ));
    cases.push(("pool-ceil-empty-input", "eval:Div:negative-numerator-truncates", pool(&[1, 1, 0], vec![Dim::Fixed(1), Dim::Fixed(1), sym("h")], 1, 2, [0, 1])));
    // not a finding: the configuration that exposes a ceil_mode clamp which ignores the start padding
    cases.push(("pool-ceil-start-padding-guard", "(passes) k=3 s=2 pads=[1,1] in=10 -> 6", pool(&[1, 1, 10], vec![Dim::Fixed(1), Dim::Fixed(1), sym("h")], 3, 2, [1, 1])));

    // not a finding: narrowing Cast of a shape value >= 256 and back (guards Cast inference)
    let mut m = M::new();
    m.input_f32("x", vec![Dim::Fixed(1), sym("big300")], &[1, 300]);
    m.ki("i1", &[1], &[1]);
    m.node("Shape", &["x"], &["s"], vec![]);
    m.node("Gather", &["s", "i1"], &["g"], vec![("axis", Attr::Int(0))]);
    m.node("Neg", &["g"], &["ng"], vec![]);
    m.node("Cast", &["g"], &["u"], vec![("to", Attr::Int(2))]);
    m.node("Cast", &["u"], &["back"], vec![("to", Attr::Int(7))]);
    m.node("Cast", &["ng"], &["i"], vec![("to", Attr::Int(3))]);
    m.node("Cast", &["i"], &["back2"], vec![("to", Attr::Int(6))]);
    cases.push(("narrowing-cast-guard", "(passes) Cast<i64>(Cast<u8>(300)) = 44", m.finish()));

    let mut m = M::new();
    m.input_f32("x", vec![Dim::Fixed(256)], &[256]);
    m.node("Shape", &["x"], &["s"], vec![]);
    m.node("Mul", &["s", "s"], &["a"], vec![]);
    m.node("Mul", &["a", "a"], &["b"], vec![]);
    cases.push(("mul-overflow-panic", "infer-panic:...binary.rs:attempt to multiply with overflow (checked builds)", m.finish()));

    let dir = vcore::verif_root().join("regressions").join("C10");
    std::fs::create_dir_all(&dir).unwrap();
    for (name, sig, built) in cases {
        let case = json!({ "g": ChainCase::Fixed(Box::new(built)), "inst": [1u32, 2u32] });
        let v = json!({ "property": "C10", "check": "shape-chains", "signature": sig, "detail": "hand-made minimal case for a known finding (see vc-infer/NOTES.md)", "case": case });
        let path = dir.join(format!("known-{name}.json"));
        std::fs::write(&path, serde_json::to_string_pretty(&v).unwrap()).unwrap();
        println!("wrote {}", path.display());
    }
}

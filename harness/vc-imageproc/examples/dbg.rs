use rten_imageproc::{convex_hull, PointF, Vec2};
fn main() {
    let lat: [(i16,i16);7] = [(-6,-10),(14,20),(12,17),(0,-1),(2,2),(-1,0),(10,0)];
    let pts: Vec<PointF> = lat.iter().map(|&(x,y)| PointF::from_yx(y as f32*0.1, x as f32*0.1)).collect();
    let m = pts[1];
    for p in &pts {
        let v = m.vec_to(*p);
        let c = v.normalized().dot(Vec2::from_yx(0.,1.));
        println!("{:?} vec=({:e},{:e}) cos={:e} bits={:x} len={:e}", p, v.x, v.y, c, c.to_bits(), v.length());
    }
    println!("{:?}", convex_hull(&pts));
}

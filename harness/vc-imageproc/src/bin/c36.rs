//! C36 — contour tracing and drawing stay on the image.
//!
//! Contours: `find_contours` (both retrieval modes) on every mask up to 4x4
//! (quick) / 5x5 (thorough), on random masks up to 24x24 at several densities
//! and on structured masks (rectangles, rings, nested rings, diamonds, shapes
//! clipped by the border, noise). Oracle: an independent flood-fill labelling
//! (8-connected foreground, 4-connected background).
//!
//! Drawing: `fill_rect`, `stroke_rect`, `draw_line`, `draw_polygon`, `Painter`
//! with coordinates in [-30, 60] on images of 0..=24 pixels per side. The
//! image is a view into a larger zero-filled guard canvas; after the call the
//! guard must still be zero and every changed pixel must lie in the shape's
//! bounding box dilated by the stroke width. A panic is a violation.

use proptest::prelude::*;
use rten_imageproc::{
    draw_line, draw_polygon, fill_rect, find_contours, stroke_rect, Line, Painter, Point, Polygon, Rect, RetrievalMode, RotatedRect, Vec2,
};
use rten_tensor::prelude::*;
use rten_tensor::NdTensor;
use serde::{Deserialize, Serialize};
use vc_imageproc::mask::{components, Mask, N4, N8};
use vcore::{Check, Verdict};

// ---------------------------------------------------------------------------
// contours
// ---------------------------------------------------------------------------

#[derive(Clone, Debug, Serialize, Deserialize)]
struct MaskCase {
    h: u8,
    w: u8,
    /// one string per row, '#' = foreground
    rows: Vec<String>,
    external: bool,
    /// pass the mask as a non-contiguous view into a larger all-foreground tensor
    embed: bool,
}

impl MaskCase {
    fn mask(&self) -> Mask {
        let mut m = Mask::new(self.h as usize, self.w as usize);
        for (y, row) in self.rows.iter().enumerate().take(m.h) {
            for (x, ch) in row.bytes().enumerate().take(m.w) {
                m.px[y * m.w + x] = ch == b'#';
            }
        }
        m
    }
    fn from_mask(m: &Mask, external: bool, embed: bool) -> MaskCase {
        let rows = (0..m.h)
            .map(|y| (0..m.w).map(|x| if m.px[y * m.w + x] { '#' } else { '.' }).collect())
            .collect();
        MaskCase { h: m.h as u8, w: m.w as u8, rows, external, embed }
    }
}

#[derive(Clone, Debug, Serialize, Deserialize)]
enum Shape {
    Rect { t: i8, l: i8, h: u8, w: u8 },
    Ring { t: i8, l: i8, h: u8, w: u8, thick: u8 },
    /// `count` concentric 1-pixel square rings, `gap` background pixels apart
    Nested { t: i8, l: i8, size: u8, gap: u8, count: u8 },
    /// pixels with |dy|+|dx| == r (an 8-connected, 1-pixel-wide diamond outline)
    Diamond { cy: i8, cx: i8, r: u8 },
    Dot { y: i8, x: i8 },
    Erase { t: i8, l: i8, h: u8, w: u8 },
}

#[derive(Clone, Debug, Serialize, Deserialize)]
struct StructCase {
    h: u8,
    w: u8,
    shapes: Vec<Shape>,
    /// pixels to toggle afterwards (index into the raster, monotone map)
    noise: Vec<u16>,
    external: bool,
    embed: bool,
}

fn fill(m: &mut Mask, t: i64, l: i64, h: i64, w: i64, v: bool) {
    for y in t..t + h {
        for x in l..l + w {
            m.set(y, x, v);
        }
    }
}

fn ring(m: &mut Mask, t: i64, l: i64, h: i64, w: i64, thick: i64) {
    for y in t..t + h {
        for x in l..l + w {
            let edge = y - t < thick || t + h - 1 - y < thick || x - l < thick || l + w - 1 - x < thick;
            if edge {
                m.set(y, x, true);
            }
        }
    }
}

impl StructCase {
    fn mask(&self) -> Mask {
        let mut m = Mask::new(self.h as usize, self.w as usize);
        for s in &self.shapes {
            match *s {
                Shape::Rect { t, l, h, w } => fill(&mut m, t as i64, l as i64, h as i64, w as i64, true),
                Shape::Erase { t, l, h, w } => fill(&mut m, t as i64, l as i64, h as i64, w as i64, false),
                Shape::Ring { t, l, h, w, thick } => ring(&mut m, t as i64, l as i64, h as i64, w as i64, thick.max(1) as i64),
                Shape::Nested { t, l, size, gap, count } => {
                    let (mut t, mut l, mut size) = (t as i64, l as i64, size as i64);
                    for _ in 0..count {
                        if size <= 0 {
                            break;
                        }
                        ring(&mut m, t, l, size, size, 1);
                        let step = 1 + gap as i64;
                        t += step;
                        l += step;
                        size -= 2 * step;
                    }
                }
                Shape::Diamond { cy, cx, r } => {
                    let r = r as i64;
                    for dy in -r..=r {
                        let dx = r - dy.abs();
                        m.set(cy as i64 + dy, cx as i64 + dx, true);
                        m.set(cy as i64 + dy, cx as i64 - dx, true);
                    }
                }
                Shape::Dot { y, x } => m.set(y as i64, x as i64, true),
            }
        }
        let n = m.h * m.w;
        if n > 0 {
            for &i in &self.noise {
                let k = vcore::pick_idx(i, n);
                m.px[k] = !m.px[k];
            }
        }
        m
    }
}

const GUARD: usize = 3;

fn check_contours(m: &Mask, external: bool, embed: bool) -> Verdict {
    vc_imageproc::own_panics_only();
    let (h, w) = (m.h, m.w);
    let mode = || if external { RetrievalMode::External } else { RetrievalMode::List };
    let mname = if external { "external" } else { "list" };
    let traced = if embed {
        let mut big = NdTensor::<bool, 2>::full([h + 2 * GUARD, w + 2 * GUARD], true);
        for y in 0..h {
            for x in 0..w {
                big[[y + GUARD, x + GUARD]] = m.px[y * w + x];
            }
        }
        vcore::catch(|| {
            let view = big.slice((GUARD..GUARD + h, GUARD..GUARD + w));
            let c = find_contours(view, mode());
            c.iter().map(|p| p.to_vec()).collect::<Vec<Vec<Point>>>()
        })
    } else {
        let t = NdTensor::<bool, 2>::from_data([h, w], m.px.clone());
        vcore::catch(|| {
            let c = find_contours(t.view(), mode());
            c.iter().map(|p| p.to_vec()).collect::<Vec<Vec<Point>>>()
        })
    };
    let show = |why: String, cs: &Vec<Vec<Point>>| format!("{why}; mode {mname}, embed {embed}, mask {}x{} {} contours {:?}", h, w, m.render(), cs);
    let contours = match traced {
        Ok(c) => c,
        Err(p) => {
            return Verdict::fail(
                format!("contours:{}", p.signature()),
                format!("find_contours panicked: {} at {}; mode {mname}, embed {embed}, mask {}x{} {}", p.msg, p.loc(), h, w, m.render()),
            )
        }
    };
    let comps = components(m);
    let mut labels: Vec<&'static str> = vec![if external { "mode-external" } else { "mode-list" }];
    if embed {
        labels.push("embedded-view");
    }
    let ncomp = comps.first.len();
    let mut diag_only = false;
    // per-contour checks
    let mut comp_of_contour: Vec<usize> = Vec::new();
    for (ci, c) in contours.iter().enumerate() {
        if c.is_empty() {
            return Verdict::fail(format!("contours:empty-contour:{mname}"), show(format!("contour #{ci} has no points"), &contours));
        }
        let mut comp = usize::MAX;
        for pt in c {
            let (y, x) = (pt.y as i64, pt.x as i64);
            if !m.inside(y, x) {
                return Verdict::fail(
                    format!("contours:point-outside-image:{mname}"),
                    show(format!("contour #{ci} point {pt:?} is outside the image"), &contours),
                );
            }
            if !m.get(y, x) {
                return Verdict::fail(
                    format!("contours:point-on-background:{mname}"),
                    show(format!("contour #{ci} point {pt:?} is a background pixel"), &contours),
                );
            }
            if N8.iter().all(|&(dy, dx)| m.get(y + dy, x + dx)) {
                return Verdict::fail(
                    format!("contours:interior-point:{mname}"),
                    show(format!("contour #{ci} point {pt:?} has no background pixel or image edge in its 8-neighbourhood"), &contours),
                );
            }
            if N4.iter().all(|&(dy, dx)| m.get(y + dy, x + dx)) {
                diag_only = true;
            }
            let k = comps.id[y as usize * w + x as usize];
            if comp == usize::MAX {
                comp = k;
            } else if comp != k {
                return Verdict::fail(
                    format!("contours:contour-spans-components:{mname}"),
                    show(format!("contour #{ci} contains pixels of two different 8-connected components"), &contours),
                );
            }
        }
        comp_of_contour.push(comp);
    }
    // per-component checks
    for k in 0..ncomp {
        let (fy, fx) = comps.first[k];
        let has_outer = contours
            .iter()
            .zip(&comp_of_contour)
            .any(|(c, &ck)| ck == k && c.iter().any(|p| p.y as usize == fy && p.x as usize == fx));
        let n_contours = comp_of_contour.iter().filter(|&&ck| ck == k).count();
        if external && comps.enclosed[k] {
            if n_contours > 0 {
                return Verdict::fail(
                    "contours:external-traces-enclosed-component",
                    show(
                        format!("External mode returned a contour for the component starting at ({fy}, {fx}), which lies inside a hole of another component"),
                        &contours,
                    ),
                );
            }
            continue;
        }
        if !has_outer {
            return Verdict::fail(
                format!("contours:component-without-outer-contour:{mname}"),
                show(format!("no contour of the component starting at ({fy}, {fx}) contains that pixel"), &contours),
            );
        }
        if external && n_contours > 1 {
            return Verdict::fail(
                "contours:external-extra-contour",
                show(
                    format!("External mode returned {n_contours} contours for the outermost component starting at ({fy}, {fx}); only its outer border is outermost"),
                    &contours,
                ),
            );
        }
    }
    if ncomp == 0 {
        labels.push("no-foreground");
        if !contours.is_empty() {
            return Verdict::fail(format!("contours:contour-in-empty-mask:{mname}"), show("contours in a mask without foreground".into(), &contours));
        }
    }
    if comps.enclosed.iter().any(|&e| e) {
        labels.push("has-enclosed-component");
    }
    if contours.len() > ncomp {
        labels.push("has-hole-contour");
    }
    if ncomp >= 3 {
        labels.push("components>=3");
    }
    if diag_only {
        labels.push("contour-point-touching-background-only-diagonally");
    }
    if h == 0 || w == 0 {
        labels.push("zero-sized-mask");
    }
    let touches = ncomp > 0 && ((0..h).any(|y| m.px[y * w] || m.px[y * w + w - 1]) || (0..w).any(|x| m.px[x] || m.px[(h - 1) * w + x]));
    if touches {
        labels.push("touches-border");
    }
    Verdict::pass_l(ncomp > 0, labels)
}

fn oracle_mask(c: &MaskCase) -> Verdict {
    check_contours(&c.mask(), c.external, c.embed)
}

fn oracle_struct(c: &StructCase) -> Verdict {
    check_contours(&c.mask(), c.external, c.embed)
}

fn random_mask() -> impl Strategy<Value = MaskCase> {
    (0usize..=24, 0usize..=24, prop_oneof![Just(26u16), Just(77), Just(128), Just(179), Just(230)], any::<bool>(), any::<bool>()).prop_flat_map(
        |(h, w, dens, external, embed)| {
            prop::collection::vec(any::<u8>(), h * w).prop_map(move |bytes| {
                let mut m = Mask::new(h, w);
                for (i, b) in bytes.iter().enumerate() {
                    // shrinking a byte towards 0 turns the pixel into background
                    m.px[i] = *b as u16 + dens > 255;
                }
                MaskCase::from_mask(&m, external, embed)
            })
        },
    )
}

fn struct_mask() -> impl Strategy<Value = StructCase> {
    let pos = || -3i8..=24;
    let shape = prop_oneof![
        3 => (pos(), pos(), 1u8..=12, 1u8..=12).prop_map(|(t, l, h, w)| Shape::Rect { t, l, h, w }),
        4 => (pos(), pos(), 3u8..=16, 3u8..=16, 1u8..=3).prop_map(|(t, l, h, w, thick)| Shape::Ring { t, l, h, w, thick }),
        3 => (pos(), pos(), 5u8..=24, 0u8..=2, 1u8..=5).prop_map(|(t, l, size, gap, count)| Shape::Nested { t, l, size, gap, count }),
        2 => (pos(), pos(), 0u8..=8).prop_map(|(cy, cx, r)| Shape::Diamond { cy, cx, r }),
        3 => (pos(), pos()).prop_map(|(y, x)| Shape::Dot { y, x }),
        1 => (pos(), pos(), 1u8..=6, 1u8..=6).prop_map(|(t, l, h, w)| Shape::Erase { t, l, h, w }),
    ];
    (
        1u8..=24,
        1u8..=24,
        prop::collection::vec(shape, 1..=6),
        prop::collection::vec(any::<u16>(), 0..=6),
        any::<bool>(),
        any::<bool>(),
    )
        .prop_map(|(h, w, shapes, noise, external, embed)| StructCase { h, w, shapes, noise, external, embed })
}

// ---------------------------------------------------------------------------
// drawing
// ---------------------------------------------------------------------------

#[derive(Clone, Debug, Serialize, Deserialize)]
enum Op {
    FillRect { t: i8, l: i8, b: i8, r: i8 },
    StrokeRect { t: i8, l: i8, b: i8, r: i8, width: u8 },
    Line { y0: i8, x0: i8, y1: i8, x1: i8, width: u8 },
    /// points are (y, x)
    Polygon { pts: Vec<(i8, i8)>, width: u8 },
    Painter { pts: Vec<(i8, i8)>, width: u8, four_channels: bool, save_restore: bool },
}

#[derive(Clone, Debug, Serialize, Deserialize)]
struct DrawCase {
    h: u8,
    w: u8,
    op: Op,
}

/// inclusive pixel box (y0, y1, x0, x1); empty when y0 > y1 or x0 > x1
type PixBox = (i32, i32, i32, i32);

fn in_box(b: PixBox, y: i32, x: i32) -> bool {
    y >= b.0 && y <= b.1 && x >= b.2 && x <= b.3
}

fn pts_box(pts: &[(i8, i8)], d: i32) -> PixBox {
    if pts.is_empty() {
        return (0, -1, 0, -1);
    }
    let ys = pts.iter().map(|p| p.0 as i32);
    let xs = pts.iter().map(|p| p.1 as i32);
    (ys.clone().min().unwrap() - d, ys.max().unwrap() + d, xs.clone().min().unwrap() - d, xs.max().unwrap() + d)
}

impl Op {
    fn name(&self) -> &'static str {
        match self {
            Op::FillRect { .. } => "fill_rect",
            Op::StrokeRect { .. } => "stroke_rect",
            Op::Line { .. } => "draw_line",
            Op::Polygon { .. } => "draw_polygon",
            Op::Painter { .. } => "painter",
        }
    }
    fn width(&self) -> i32 {
        match self {
            Op::FillRect { .. } => 0,
            Op::StrokeRect { width, .. } | Op::Line { width, .. } | Op::Polygon { width, .. } | Op::Painter { width, .. } => *width as i32,
        }
    }
    /// The shape's own pixel box (no stroke dilation).
    fn shape_box(&self) -> PixBox {
        match self {
            Op::FillRect { t, l, b, r } => (*t as i32, *b as i32 - 1, *l as i32, *r as i32 - 1),
            Op::StrokeRect { t, l, b, r, .. } => {
                let (t, b, l, r) = (*t as i32, *b as i32, *l as i32, *r as i32);
                (t.min(b), t.max(b) - 1, l.min(r), l.max(r) - 1)
            }
            Op::Line { y0, x0, y1, x1, .. } => pts_box(&[(*y0, *x0), (*y1, *x1)], 0),
            Op::Polygon { pts, .. } | Op::Painter { pts, .. } => pts_box(pts, 0),
        }
    }
    /// Pixels the call may change: the shape box dilated by the stroke width
    /// (DESIGN.md §6 C36). `fill_rect` has no stroke.
    fn allowed_box(&self) -> PixBox {
        let (b, d) = (self.shape_box(), self.width());
        (b.0 - d, b.1 + d, b.2 - d, b.3 + d)
    }
}

/// `FillIter` never advances to the next row when the polygon's bounding box
/// has zero width (it waits for `cursor.x == bounds.right()` while moving
/// right from `bounds.right()`), so a polygon with zero horizontal extent and
/// at least one non-horizontal edge spins for 2^32 steps per row (release) or
/// panics with an add overflow after 2^31 steps (overflow checks on). Such
/// polygons are reported from this predicate, without running the iterator,
/// to keep the check's run time bounded.
///
/// Whether the iterator really behaves like that is observed once per process
/// by `fill_iter_zero_width_hangs` on the smallest such polygon (one row).
fn zero_width_with_vertical_extent(pts: &[(i32, i32)]) -> bool {
    pts.len() >= 2 && pts.iter().all(|p| p.1 == pts[0].1) && pts.iter().any(|p| p.0 != pts[0].0)
}

static ZERO_WIDTH_HANGS: std::sync::OnceLock<bool> = std::sync::OnceLock::new();

/// Probe: `Polygon::fill_iter` on the one-row zero-width polygon (0,0)-(1,0).
/// A correct iterator answers `None` after a handful of steps; the defective
/// one needs 2^32 cursor steps (seconds of CPU) or panics on i32 overflow.
/// This is the only place the check reads a clock: the *CPU time of this
/// thread*, with a threshold (0.2 s) six orders of magnitude above the
/// correct behaviour and an order of magnitude below the defective one. The
/// result only decides whether zero-width polygons are executed or reported
/// as the (known) hang without executing them.
fn fill_iter_zero_width_hangs() -> bool {
    *ZERO_WIDTH_HANGS.get_or_init(|| {
        vc_imageproc::own_panics_only();
        let pts = [Point::from_yx(0, 0), Point::from_yx(1, 0)];
        let t0 = vc_imageproc::thread_cpu_seconds();
        let r = vcore::catch(|| Polygon::new(&pts[..]).fill_iter().next());
        let dt = vc_imageproc::thread_cpu_seconds() - t0;
        r.is_err() || dt > 0.2
    })
}

/// The polygon `draw_line` fills for a line of width >= 2, computed through
/// the same public operations (`RotatedRect::new(..).corners()` truncated to
/// integers), as (y, x) pairs.
fn wide_line_polygon(a: (i8, i8), b: (i8, i8), width: u8) -> [(i32, i32); 4] {
    let line = Line::from_endpoints(Point::from_yx(a.0 as i32, a.1 as i32), Point::from_yx(b.0 as i32, b.1 as i32)).to_f32();
    let v = Vec2::from_xy(line.width(), line.height());
    RotatedRect::new(line.center(), v.perpendicular(), v.length(), width as f32)
        .corners()
        .map(|c| (c.y as i32, c.x as i32))
}

impl Op {
    /// Some edge of this shape is stroked through a zero-width polygon.
    /// The line segments `draw_line` is called with, as ((y, x), (y, x)).
    fn edges(&self) -> Vec<((i8, i8), (i8, i8))> {
        match self {
            Op::Line { y0, x0, y1, x1, .. } => vec![((*y0, *x0), (*y1, *x1))],
            Op::Polygon { pts, .. } | Op::Painter { pts, .. } => (0..pts.len()).map(|i| (pts[i], pts[(i + 1) % pts.len()])).collect(),
            _ => Vec::new(),
        }
    }

    fn hits_fill_iter_hang(&self) -> Option<[(i32, i32); 4]> {
        let (edges, width) = (self.edges(), self.width() as u8);
        if width < 2 {
            return None;
        }
        edges.iter().map(|&(a, b)| wide_line_polygon(a, b, width)).find(|poly| zero_width_with_vertical_extent(poly))
    }
}

#[derive(Clone, Debug, Serialize, Deserialize)]
struct FillCase {
    /// polygon vertices (y, x)
    pts: Vec<(i8, i8)>,
}

fn check_fill_iter(c: &FillCase) -> Verdict {
    vc_imageproc::own_panics_only();
    let ipts: Vec<(i32, i32)> = c.pts.iter().map(|p| (p.0 as i32, p.1 as i32)).collect();
    if zero_width_with_vertical_extent(&ipts) && fill_iter_zero_width_hangs() {
        return Verdict::fail(
            "fill_iter:zero-width-polygon-hang",
            format!("Polygon::fill_iter on {:?} (y,x): zero horizontal extent with a non-horizontal edge: the iterator never reaches the end of a row", c.pts),
        );
    }
    let b = pts_box(&c.pts, 0);
    let cap = if c.pts.is_empty() { 1 } else { ((b.1 - b.0 + 1) as usize) * ((b.3 - b.2 + 1) as usize) + 1 };
    let pts: Vec<Point> = ipts.iter().map(|&(y, x)| Point::from_yx(y, x)).collect();
    let filled = match vcore::catch(|| Polygon::new(&pts[..]).fill_iter().take(cap + 1).collect::<Vec<Point>>()) {
        Ok(f) => f,
        Err(p) => return Verdict::fail(format!("fill_iter:{}", p.signature()), format!("fill_iter on {:?} panicked: {} at {}", c.pts, p.msg, p.loc())),
    };
    if filled.len() > cap {
        return Verdict::fail("fill_iter:more-points-than-bounding-box", format!("fill_iter on {:?} yields more than {cap} points", c.pts));
    }
    let mut seen = std::collections::BTreeSet::new();
    for q in &filled {
        if !in_box(b, q.y, q.x) {
            return Verdict::fail(
                "fill_iter:point-outside-bounding-box",
                format!("fill_iter on {:?} yields {q:?}, outside the vertices' bounding box (y0,y1,x0,x1) = {b:?}", c.pts),
            );
        }
        if !seen.insert((q.y, q.x)) {
            return Verdict::fail("fill_iter:duplicate-point", format!("fill_iter on {:?} yields {q:?} twice", c.pts));
        }
    }
    let mut labels = vec!["fill_iter"];
    if !filled.is_empty() {
        labels.push("fill-nonempty");
    }
    Verdict::pass_l(!filled.is_empty(), labels)
}

fn fill_case() -> impl Strategy<Value = FillCase> {
    let coord = || prop_oneof![2 => -30i8..=60, 3 => 0i8..=8];
    prop::collection::vec((coord(), coord()), 0..=6).prop_map(|pts| FillCase { pts })
}

const VALUE: i32 = 7;
const STROKE: [i32; 3] = [11, 22, 33];

fn check_draw(c: &DrawCase) -> Verdict {
    vc_imageproc::own_panics_only();
    let (h, w) = (c.h as usize, c.w as usize);
    let name = c.op.name();
    let allowed = c.op.allowed_box();
    let sb = c.op.shape_box();
    // the dilated shape lies entirely on the image?
    let empty_shape = allowed.0 > allowed.1 || allowed.2 > allowed.3;
    let inside = empty_shape || (allowed.0 >= 0 && allowed.2 >= 0 && allowed.1 < h as i32 && allowed.3 < w as i32);
    let qual = if inside { "@inside" } else { "@outside" };
    let channels = match &c.op {
        Op::Painter { four_channels: true, .. } => 4,
        Op::Painter { .. } => 3,
        _ => 1,
    };
    if let Some(poly) = c.op.hits_fill_iter_hang().filter(|_| fill_iter_zero_width_hangs()) {
        return Verdict::fail(
            format!("draw:{name}:fill-iter-zero-width-polygon-hang"),
            format!(
                "image {h}x{w}, op {:?}: the stroke polygon of one edge truncates to {poly:?} (y,x), which has zero horizontal extent; Polygon::fill_iter does not terminate in reasonable time on it (not executed)",
                c.op
            ),
        );
    }
    let (ch, cw) = (h + 2 * GUARD, w + 2 * GUARD);
    let mut canvas = NdTensor::<i32, 3>::zeros([channels, ch, cw]);
    let res = vcore::catch(|| match &c.op {
        Op::FillRect { t, l, b, r } => {
            let view = canvas.slice_mut((0, GUARD..GUARD + h, GUARD..GUARD + w));
            fill_rect(view, Rect::from_tlbr(*t as i32, *l as i32, *b as i32, *r as i32), VALUE)
        }
        Op::StrokeRect { t, l, b, r, width } => {
            let view = canvas.slice_mut((0, GUARD..GUARD + h, GUARD..GUARD + w));
            stroke_rect(view, Rect::from_tlbr(*t as i32, *l as i32, *b as i32, *r as i32), VALUE, *width as u32)
        }
        Op::Line { y0, x0, y1, x1, width } => {
            let view = canvas.slice_mut((0, GUARD..GUARD + h, GUARD..GUARD + w));
            let line = Line::from_endpoints(Point::from_yx(*y0 as i32, *x0 as i32), Point::from_yx(*y1 as i32, *x1 as i32));
            draw_line(view, line, VALUE, *width as u32)
        }
        Op::Polygon { pts, width } => {
            let view = canvas.slice_mut((0, GUARD..GUARD + h, GUARD..GUARD + w));
            let pts: Vec<Point> = pts.iter().map(|&(y, x)| Point::from_yx(y as i32, x as i32)).collect();
            draw_polygon(view, &pts, VALUE, *width as u32)
        }
        Op::Painter { pts, width, save_restore, .. } => {
            let surface = canvas.slice_mut((.., GUARD..GUARD + h, GUARD..GUARD + w));
            let pts: Vec<Point> = pts.iter().map(|&(y, x)| Point::from_yx(y as i32, x as i32)).collect();
            let mut painter = Painter::new(surface);
            painter.set_stroke(STROKE);
            painter.set_stroke_width(*width as u32);
            if *save_restore {
                let other = *width as u32 + 2;
                painter.with_save(|p| {
                    p.set_stroke([90, 91, 92]);
                    p.set_stroke_width(other);
                });
            }
            painter.draw_polygon(&pts)
        }
    });

    let show = |why: String| format!("{why}; image {h}x{w}, op {:?}, allowed pixel box (y0,y1,x0,x1) = {allowed:?}", c.op);
    let mut changed = 0u64;
    let mut out_of_bounds: Vec<(usize, i32, i32)> = Vec::new();
    let mut outside_shape = false;
    let mut painted = vec![false; h * w];
    for k in 0..channels {
        for cy in 0..ch {
            for cx in 0..cw {
                let v = canvas[[k, cy, cx]];
                if v == 0 {
                    continue;
                }
                let (y, x) = (cy as i32 - GUARD as i32, cx as i32 - GUARD as i32);
                if y < 0 || x < 0 || y >= h as i32 || x >= w as i32 {
                    return Verdict::fail(
                        format!("draw:{name}:wrote-outside-image-view"),
                        show(format!("pixel (y={y}, x={x}) of channel {k}, outside the {h}x{w} image view, was set to {v}")),
                    );
                }
                let expect = if channels == 1 { VALUE } else if k < 3 { STROKE[k] } else { 0 };
                if v != expect {
                    return Verdict::fail(
                        format!("draw:{name}:wrong-value"),
                        show(format!("pixel (y={y}, x={x}) of channel {k} was set to {v}, expected {expect}")),
                    );
                }
                changed += 1;
                painted[y as usize * w + x as usize] = true;
                if !in_box(allowed, y, x) {
                    out_of_bounds.push((k, y, x));
                }
                if !in_box(sb, y, x) {
                    outside_shape = true;
                }
            }
        }
    }
    if let Some(&(k, y, x)) = out_of_bounds.first() {
        // Root-cause class of the stray pixels. The only listed (known) class
        // is `w1-endpoint-clamp`: draw_line with width 1 clamps the two end
        // points of each edge to the image and rasterises the segment between
        // the clamped points, so every stray pixel then lies in the bounding
        // box of some edge's clamped end points. Anything else - any stroke
        // width >= 2, or a width-1 pixel that no clamped edge explains - keeps
        // an unlisted signature.
        let class = match c.op.width() {
            _ if matches!(c.op, Op::FillRect { .. } | Op::StrokeRect { .. }) => "rect".to_string(),
            0 => "w0".to_string(),
            1 => {
                let clamp = |p: (i8, i8)| ((p.0 as i32).clamp(0, h as i32 - 1), (p.1 as i32).clamp(0, w as i32 - 1));
                let boxes: Vec<PixBox> = c
                    .op
                    .edges()
                    .iter()
                    .map(|&(a, b)| {
                        let (a, b) = (clamp(a), clamp(b));
                        (a.0.min(b.0), a.0.max(b.0), a.1.min(b.1), a.1.max(b.1))
                    })
                    .collect();
                if h > 0 && w > 0 && out_of_bounds.iter().all(|&(_, y, x)| boxes.iter().any(|&b| in_box(b, y, x))) {
                    "w1-endpoint-clamp".to_string()
                } else {
                    "w1".to_string()
                }
            }
            _ => "w>=2".to_string(),
        };
        return Verdict::fail(
            format!("draw:{name}{qual}:outside-shape-bounds:{class}"),
            show(format!(
                "pixel (y={y}, x={x}) of channel {k} (and {} more) was changed but lies outside the shape's bounding box dilated by the stroke width",
                out_of_bounds.len() - 1
            )),
        );
    }
    if let Err(p) = res {
        // an image with a zero-sized dimension is its own corner case
        let empty = if h == 0 || w == 0 { "@empty-image" } else { "" };
        return Verdict::fail(format!("draw:{name}{qual}:{}{empty}", p.signature()), show(format!("panicked: {} at {}", p.msg, p.loc())));
    }
    if let Op::FillRect { .. } = c.op {
        // documented: fills all points inside the (half-open) rect
        for y in 0..h {
            for x in 0..w {
                if painted[y * w + x] != in_box(sb, y as i32, x as i32) {
                    return Verdict::fail(
                        "draw:fill_rect:wrong-pixels",
                        show(format!("pixel (y={y}, x={x}) painted={} but rect membership is {}", painted[y * w + x], !painted[y * w + x])),
                    );
                }
            }
        }
    }
    let mut labels = vec![name, if inside { "shape-inside-image" } else { "shape-outside-or-crossing" }];
    if h == 0 || w == 0 {
        labels.push("empty-image");
    }
    if changed > 0 {
        labels.push("changed-pixels");
    }
    if outside_shape {
        labels.push(match c.op {
            Op::StrokeRect { .. } => "stroke_rect-paints-outside-rect(width>size)",
            _ => "stroke-extends-past-vertices",
        });
    }
    if c.op.width() >= 2 {
        labels.push("wide-stroke");
    }
    Verdict::pass_l(changed > 0 || !inside, labels)
}

fn draw_case() -> impl Strategy<Value = DrawCase> {
    let dim = || prop_oneof![1 => 0u8..=2, 8 => 1u8..=24];
    (dim(), dim(), prop_oneof![Just(0u8), Just(1), Just(2)]).prop_flat_map(|(h, w, mode)| {
        // mode 0: vertices on the image, 1: near the image, 2: anywhere in [-30, 60]
        let coord = move |n: u8| -> BoxedStrategy<i8> {
            match mode {
                0 => (0i8..=n as i8).boxed(),
                1 => (-4i8..=n as i8 + 4).boxed(),
                _ => (-30i8..=60).boxed(),
            }
        };
        let (y, x) = (coord(h), coord(w));
        let width = || prop_oneof![3 => Just(1u8), 1 => Just(0u8), 3 => 2u8..=5];
        let pt = (y.clone(), x.clone());
        let poly = prop::collection::vec(pt, 0..=6);
        let op = prop_oneof![
            2 => (y.clone(), x.clone(), y.clone(), x.clone()).prop_map(|(t, l, b, r)| Op::FillRect { t, l, b, r }),
            2 => (y.clone(), x.clone(), y.clone(), x.clone(), width()).prop_map(|(t, l, b, r, width)| Op::StrokeRect { t, l, b, r, width }),
            3 => (y.clone(), x.clone(), y.clone(), x.clone(), width()).prop_map(|(y0, x0, y1, x1, width)| Op::Line { y0, x0, y1, x1, width }),
            2 => (poly.clone(), width()).prop_map(|(pts, width)| Op::Polygon { pts, width }),
            1 => (poly, width(), any::<bool>(), any::<bool>()).prop_map(|(pts, width, four_channels, save_restore)| Op::Painter {
                pts,
                width,
                four_channels,
                save_restore
            }),
        ];
        op.prop_map(move |op| DrawCase { h, w, op })
    })
}

// ---------------------------------------------------------------------------

fn main() {
    let mut ck = Check::new("C36");
    ck.rule(
        "Contours: `contours-exhaustive` = every mask of every size h,w in 0..=4 (quick) / 0..=5 (thorough) x {List, External} x \
         {plain tensor, view embedded in an all-foreground tensor} (5x5: plain tensor only); `contours-random` = masks of size 0..=24 per side with i.i.d. \
         pixels at density 0.1/0.3/0.5/0.7/0.9; `contours-structured` = 1..=6 shapes (filled rect, ring of thickness 1..3, up to 5 \
         nested 1-pixel rings with gap 0..2, diamond outline, dot, erase-rect) at positions -3..=24 (clipped by the border) on a \
         1..=24 square-ish image plus up to 6 toggled pixels. Non-trivial = at least one foreground pixel. \
         Drawing: `drawing` = one call of fill_rect / stroke_rect / draw_line / draw_polygon (0..=6 vertices) / Painter::draw_polygon \
         (3 or 4 channels, optional with_save) on an image of 0..=24 per side that is a view into a zero canvas with a 3-pixel guard \
         band; vertex coordinates on the image, within 4 pixels of it, or anywhere in [-30,60]; stroke width 0..=5. Non-trivial = \
         the call changed a pixel or the dilated shape is not entirely on the image. `fill-iter` = Polygon::fill_iter on 0..=6 vertices \
         in [-30,60] or [0,8]: every yielded pixel lies in the vertices' bounding box, no pixel twice, at most box-area pixels; \
         non-trivial = yields a pixel. Polygons with zero horizontal extent and a non-horizontal edge (also as the stroke polygon of a \
         wide line) are reported without running the iterator when a one-row probe shows that it spins 2^32 steps per row. Distinct = distinct Debug rendering.",
    );
    ck.assume("foreground is 8-connected and background 4-connected, as in the Suzuki-Abe algorithm the source cites; 'adjacent to the background' is tested on the 8-neighbourhood");
    ck.assume("a component is 'enclosed' when none of its pixels is 4-adjacent to background that is 4-connected to the outside of the image");
    ck.assume("the shape's bounds are the bounding box of its vertices dilated by the stroke width on every side (fill_rect: the half-open rect itself)");
    ck.set_threads(16);
    // contours.rs / drawing.rs / shapes.rs contain no unsafe code and no
    // recursion; the "weakly checked" tensor views they use still check the
    // storage offset. A signal is not a plausible outcome; cases are many.
    ck.set_slots(false);

    let hangs = fill_iter_zero_width_hangs();
    println!(
        "probe: Polygon::fill_iter on the zero-width polygon (0,0)-(1,0) {}",
        if hangs { "spins / overflows: zero-width polygons are reported without being executed" } else { "terminates immediately: zero-width polygons are executed" }
    );
    ck.extra("fill_iter_zero_width_probe_hangs", vcore::serde_json::json!(hangs));

    // exhaustive masks: 4 variants (mode x embedding) per mask; the 2^25 masks of
    // 5x5 (thorough) only as plain tensors in both modes
    let variants = |h: usize, w: usize| -> u64 { if h * w > 20 { 2 } else { 4 } };
    let max_side: usize = ck.pick(4, 5) as usize;
    let mut table: Vec<(usize, usize, u64)> = Vec::new(); // (h, w, first index)
    let mut total: u64 = 0;
    for h in 0..=max_side {
        for w in 0..=max_side {
            table.push((h, w, total));
            total += variants(h, w) << (h * w);
        }
    }
    ck.enumerate_par(
        "contours-exhaustive",
        true,
        total,
        |i| {
            let k = table.partition_point(|e| e.2 <= i) - 1;
            let (h, w, base) = table[k];
            let j = i - base;
            let v = variants(h, w);
            let (variant, bits) = (j % v, j / v);
            let mut m = Mask::new(h, w);
            for p in 0..h * w {
                m.px[p] = bits >> p & 1 == 1;
            }
            MaskCase::from_mask(&m, variant & 1 == 1, variant & 2 == 2)
        },
        oracle_mask,
    );
    ck.prop("contours-random", ck.pick(400_000, 4_000_000), random_mask, oracle_mask);
    ck.prop("contours-structured", ck.pick(800_000, 8_000_000), struct_mask, oracle_struct);
    ck.prop("drawing", ck.pick(2_000_000, 20_000_000), draw_case, check_draw);
    ck.prop("fill-iter", ck.pick(600_000, 6_000_000), fill_case, check_fill_iter);
    ck.finish();
}

//! C35 — polygon algorithms return geometrically valid results.
//!
//! Functions under test: `convex_hull`, `min_area_rect`, `simplify_polyline`,
//! `simplify_polygon` (rten-imageproc/src/poly_algos.rs) and the `RotatedRect`
//! accessors they return through (shapes.rs).
//!
//! Oracle = validity predicates evaluated in exact integer arithmetic (integer
//! grid domain) or f64 with documented tolerances (scaled / offset / large
//! lattice domains). See NOTES.md for the tolerance derivations.

use proptest::prelude::*;
use rten_imageproc::{convex_hull, min_area_rect, simplify_polygon, simplify_polyline, PointF, Vec2};
use serde::{Deserialize, Serialize};
use vc_imageproc::geom::{self, P};
use vcore::{Check, Verdict};

/// Relative tolerance of the f32-cosine Graham scan (DESIGN.md §6 C35): the
/// sort key is cos(angle) in f32, whose resolution near +-1 is sqrt(2*2^-24)
/// = 3.5e-4 rad; a mis-ordering inside such an angular window displaces the
/// hull by at most window * diameter. tau = 1e-3 is ~3x that.
const TAU: f64 = 1e-3;
/// f32 evaluation error of projections / distances / rectangle centre:
/// ~10 roundings of 2^-24 relative to (diameter + max |coordinate|) = 6e-7;
/// 1e-5 leaves a 16x margin.
const RND: f64 = 1e-5;

/// (name, scale, x offset, y offset): p = lattice * scale + offset, in f32.
const XFORMS: [(&str, f32, f32, f32); 7] = [
    ("xf-int", 1.0, 0.0, 0.0),
    ("xf-1e-6", 1e-6, 0.0, 0.0),
    ("xf-1e6", 1e6, 0.0, 0.0),
    ("xf-0.1", 0.1, 0.0, 0.0),
    ("xf-int+1e4", 1.0, 1e4, -1e4),
    ("xf-int+1e6", 1.0, 1e6, 1e6),
    ("xf-1e-3+1", 1e-3, 1.0, 1.0),
];

const CLASSES: [&str; 9] = [
    "grid20",
    "grid3",
    "collinear",
    "duplicates",
    "cluster+outlier",
    "walk",
    "biglattice",
    "rect-border",
    "enum-subset",
];

#[derive(Clone, Debug, Serialize, Deserialize)]
struct Case {
    /// generator class (index into CLASSES; informational)
    class: u8,
    /// lattice coordinates (x, y)
    pts: Vec<(i16, i16)>,
    /// index into XFORMS
    xf: u8,
    /// epsilon for simplification = eps_q / 1000 * diameter
    eps_q: u16,
}

impl Case {
    fn xform(&self) -> (&'static str, f32, f32, f32) {
        XFORMS[(self.xf as usize).min(XFORMS.len() - 1)]
    }
    fn points(&self) -> Vec<PointF> {
        let (_, s, ox, oy) = self.xform();
        self.pts
            .iter()
            .map(|&(x, y)| PointF::from_yx(y as f32 * s + oy, x as f32 * s + ox))
            .collect()
    }
    /// Integer-grid domain of the design: coordinates are the integers
    /// themselves and |c| <= 20, so every difference and cross product rten
    /// computes is exact in f32 and a violation is at least 1/57 of a grid
    /// step in size: the oracle is exact.
    fn strict(&self) -> bool {
        self.xf == 0 && self.pts.iter().all(|&(x, y)| x.abs() <= 20 && y.abs() <= 20)
    }
    fn distinct(&self) -> usize {
        let mut v = self.pts.clone();
        v.sort();
        v.dedup();
        v.len()
    }
}

fn to_p(v: &[PointF]) -> Vec<P> {
    v.iter().map(|q| geom::p(q.x as f64, q.y as f64)).collect()
}

fn same(a: PointF, b: PointF) -> bool {
    a.x == b.x && a.y == b.y
}

type Fail = (String, String);

struct Scale {
    d: f64,
    m: f64,
}

// ---------------------------------------------------------------------------
// convex_hull
// ---------------------------------------------------------------------------

fn icross(o: (i64, i64), a: (i64, i64), b: (i64, i64)) -> i64 {
    (a.0 - o.0) * (b.1 - o.1) - (a.1 - o.1) * (b.0 - o.0)
}

/// Root-cause classification, consulted only after a validity predicate has
/// failed. rten's Graham scan (a) sorts by the f32 cosine of the angle around
/// the start point hull[0] (ties: distance) and (b) pops while an f32 cross
/// product is <= 0. It is only correct if (a) is the true angular order with
/// collinear points nearest-first and (b) has the true sign. The rounded
/// cosines of collinear points often differ in the last bit, and the f32 cross
/// product of a nearly collinear triple can have the wrong sign; either makes
/// the scan pop an extreme point or leave a folded outline.
///
/// This function replays rten's scan (same public Vec2 operations, same
/// comparator) and reports whether any sort comparison or any turn test that
/// the run actually evaluated differs from the exact result (f64 cross
/// products of the f32 coordinates are exact). If none does, every decision
/// was right and the failure has another cause.
fn f32_predicate_diverged(pts: &[PointF], hull: &[PointF]) -> bool {
    let Some(&m) = hull.first() else { return false };
    let p64 = |q: PointF| geom::p(q.x as f64, q.y as f64);
    let mp = p64(m);
    let angle = |q: PointF| -> f32 {
        if same(q, m) {
            f32::MIN
        } else {
            m.vec_to(q).normalized().dot(Vec2::from_yx(0., 1.))
        }
    };
    let mut sorted: Vec<(PointF, f32)> = pts.iter().map(|&q| (q, angle(q))).collect();
    sorted.sort_by(|(a_pt, a_angle), (b_pt, b_angle)| {
        if a_angle == b_angle {
            m.vec_to(*a_pt).length().total_cmp(&m.vec_to(*b_pt).length())
        } else {
            a_angle.total_cmp(b_angle)
        }
    });
    sorted.dedup_by(|a, b| same(a.0, b.0));
    // (a) the sorted sequence must be in exact angular order, nearest first
    for w in sorted.windows(2) {
        let (a, b) = (w[0].0, w[1].0);
        if same(a, m) {
            continue;
        }
        let c = geom::cross(mp, p64(a), p64(b));
        let ok = if c != 0.0 { c > 0.0 } else { geom::dist(mp, p64(a)) <= geom::dist(mp, p64(b)) };
        if !ok {
            return true;
        }
    }
    // (b) replay the scan with rten's f32 turn test
    let mut st: Vec<PointF> = Vec::new();
    for &(q, _) in &sorted {
        while st.len() >= 2 {
            let (prev2, prev) = (st[st.len() - 2], st[st.len() - 1]);
            let turn32 = prev2.vec_to(q).cross_product_norm(prev.vec_to(q));
            let turn64 = geom::cross(p64(q), p64(prev2), p64(prev));
            if (turn32 > 0.) != (turn64 > 0.) {
                return true;
            }
            if turn32 > 0. {
                break;
            }
            st.pop();
        }
        st.push(q);
    }
    false
}

fn hull_sig(kind: &str, dom: &str, pts: &[PointF], hull: &[PointF]) -> String {
    if f32_predicate_diverged(pts, hull) {
        format!("hull:f32-predicate-inexact{dom}")
    } else {
        format!("hull:{kind}{dom}")
    }
}

fn check_hull(c: &Case, pts: &[PointF], hull: &[PointF], sc: &Scale, labels: &mut Vec<&'static str>) -> Result<(), Fail> {
    let dom = if c.strict() { "@int-grid" } else { "@float" };
    let show = |why: String| format!("{why}; points {:?} -> hull {:?}", pts, hull);
    if pts.is_empty() {
        if !hull.is_empty() {
            return Err(("hull:nonempty-for-empty-input".into(), show("hull of no points is not empty".into())));
        }
        return Ok(());
    }
    if hull.is_empty() {
        return Err((format!("hull:empty-for-nonempty-input{dom}"), show("hull is empty".into())));
    }
    for v in hull {
        if !pts.iter().any(|q| same(*q, *v)) {
            return Err((format!("hull:vertex-not-input{dom}"), show(format!("hull vertex {v:?} is not an input point"))));
        }
    }
    let n = hull.len();
    if (0..n).any(|i| n > 1 && same(hull[i], hull[(i + 1) % n])) {
        labels.push("hull-zero-length-edge");
    }
    if c.strict() {
        // exact integer oracle
        let ip: Vec<(i64, i64)> = pts.iter().map(|q| (q.x as i64, q.y as i64)).collect();
        let ih: Vec<(i64, i64)> = hull.iter().map(|q| (q.x as i64, q.y as i64)).collect();
        let a2: i64 = (1..n.saturating_sub(1)).map(|i| icross(ih[0], ih[i], ih[i + 1])).sum();
        if a2 != 0 {
            let s = a2.signum();
            let mut collinear_vertex = false;
            for i in 0..n {
                let (a, b) = (ih[i], ih[(i + 1) % n]);
                if a == b {
                    continue;
                }
                if icross(a, b, ih[(i + 2) % n]) == 0 {
                    collinear_vertex = true;
                }
                for (k, &q) in ip.iter().enumerate() {
                    if s * icross(a, b, q) < 0 {
                        let is_vertex = ih.contains(&q);
                        let sig = if is_vertex { "not-convex" } else { "point-outside" };
                        return Err((
                            hull_sig(sig, dom, pts, hull),
                            show(format!(
                                "input point #{k} {:?} is strictly on the outer side of hull edge {:?}->{:?} (exact integer cross product {})",
                                pts[k],
                                hull[i],
                                hull[(i + 1) % n],
                                s * icross(a, b, q)
                            )),
                        ));
                    }
                }
            }
            if collinear_vertex {
                labels.push("hull-collinear-vertex");
            }
            labels.push("hull-3+");
        } else {
            // degenerate hull (point or segment, possibly traversed back and forth):
            // every input point must lie on the segment spanned by the hull vertices
            let (mut a, mut b) = (ih[0], ih[0]);
            let mut best = 0;
            for &u in &ih {
                for &v in &ih {
                    let d2 = (u.0 - v.0).pow(2) + (u.1 - v.1).pow(2);
                    if d2 > best {
                        best = d2;
                        a = u;
                        b = v;
                    }
                }
            }
            for (k, &q) in ip.iter().enumerate() {
                let on = if a == b {
                    q == a
                } else {
                    let t = (q.0 - a.0) * (b.0 - a.0) + (q.1 - a.1) * (b.1 - a.1);
                    icross(a, b, q) == 0 && t >= 0 && t <= best
                };
                if !on {
                    return Err((
                        hull_sig("point-outside", dom, pts, hull),
                        show(format!("hull is degenerate (zero area) but input point #{k} {:?} is not on it", pts[k])),
                    ));
                }
            }
            labels.push("hull-degenerate");
        }
        return Ok(());
    }

    // tolerant f64 oracle
    let pp = to_p(pts);
    let hp = to_p(hull);
    let tol = TAU * sc.d;
    // (a) consecutive triples turn the same way, tolerance tau*d^2
    if n >= 3 {
        let (mut lo, mut hi) = (f64::INFINITY, f64::NEG_INFINITY);
        for i in 0..n {
            let t = geom::cross(hp[i], hp[(i + 1) % n], hp[(i + 2) % n]);
            lo = lo.min(t);
            hi = hi.max(t);
        }
        let t2 = TAU * sc.d * sc.d;
        if lo < -t2 && hi > t2 {
            return Err((
                format!("hull:not-convex{dom}"),
                show(format!("consecutive hull triples turn both ways: cross products range {lo:e}..{hi:e}, tolerance {t2:e}")),
            ));
        }
        labels.push("hull-3+");
    } else {
        labels.push("hull-degenerate");
    }
    // (a') a convex outline traversed once is cyclically unimodal in every
    // direction: projected on a direction it rises to its maximum and falls
    // back, once. Reversals smaller than 2*tau*d are ignored. This rejects
    // outlines that fold back along an edge, which (a) cannot see (180 degree
    // turns have zero cross product).
    if n >= 3 {
        let hyst = 2.0 * tol;
        for k in 0..16 {
            let th = std::f64::consts::PI * k as f64 / 16.0;
            let (ux, uy) = (th.cos(), th.sin());
            let s: Vec<f64> = hp.iter().map(|q| q.x * ux + q.y * uy).collect();
            let start = (0..n).min_by(|&i, &j| s[i].total_cmp(&s[j])).unwrap();
            let (mut rising, mut ext, mut reversals) = (true, s[start], 0);
            for step in 1..=n {
                let v = s[(start + step) % n];
                if rising {
                    if v > ext {
                        ext = v;
                    } else if v < ext - hyst {
                        rising = false;
                        reversals += 1;
                        ext = v;
                    }
                } else if v < ext {
                    ext = v;
                } else if v > ext + hyst {
                    rising = true;
                    reversals += 1;
                    ext = v;
                }
            }
            if reversals > 1 {
                return Err((
                    hull_sig("not-convex", dom, pts, hull),
                    show(format!(
                        "hull outline is not traversed once: its projection on direction ({ux:.3}, {uy:.3}) reverses {reversals} times (> 1) by more than {hyst:e}"
                    )),
                ));
            }
        }
    }
    // (b) every input point inside or within tau*d of the hull outline
    for (k, &q) in pp.iter().enumerate() {
        if geom::winding_contains(q, &hp) {
            continue;
        }
        let dist = geom::outline_dist(q, &hp, true);
        if dist > tol {
            return Err((
                hull_sig("point-outside", dom, pts, hull),
                show(format!("input point #{k} {:?} is outside the hull by {dist:e} > tolerance {tol:e} (diameter {:e})", pts[k], sc.d)),
            ));
        }
    }
    // (c) the hull polygon covers the reference hull once: |area| within the
    // Steiner bound of the reference hull area (rules out outlines that wind
    // twice or fold back, which pass (a) and (b))
    let rh = geom::ref_hull(&pp);
    let (a_ref, a_ret) = (geom::shoelace(&rh).abs(), geom::shoelace(&hp).abs());
    let slack = 2.0 * (geom::perimeter(&rh) * tol + std::f64::consts::PI * tol * tol);
    if (a_ret - a_ref).abs() > slack {
        return Err((
            hull_sig("area-mismatch", dom, pts, hull),
            show(format!("hull polygon area {a_ret:e} differs from reference hull area {a_ref:e} by more than {slack:e}")),
        ));
    }
    Ok(())
}

// ---------------------------------------------------------------------------
// min_area_rect
// ---------------------------------------------------------------------------

fn check_rect(c: &Case, pts: &[PointF], sc: &Scale, labels: &mut Vec<&'static str>) -> Result<(), Fail> {
    let dom = if c.strict() { "@int-grid" } else { "@float" };
    let r = min_area_rect(pts);
    let Some(r) = r else {
        if pts.is_empty() {
            return Ok(());
        }
        return Err(("rect:none-for-nonempty-input".into(), format!("min_area_rect({pts:?}) = None")));
    };
    let show = |why: String| format!("{why}; points {pts:?} -> {r:?} corners {:?} (convex_hull = {:?})", r.corners(), convex_hull(pts));
    if pts.is_empty() {
        return Err(("rect:some-for-empty-input".into(), show("rect for no points".into())));
    }
    let (cx, cy) = (r.center().x as f64, r.center().y as f64);
    let (ux, uy) = (r.up_axis().x as f64, r.up_axis().y as f64);
    let (w, h) = (r.width() as f64, r.height() as f64);
    if ![cx, cy, ux, uy, w, h].iter().all(|v| v.is_finite()) || w < 0.0 || h < 0.0 {
        return Err((format!("rect:non-finite-or-negative{dom}"), show("rect has a non-finite or negative field".into())));
    }
    if ((ux * ux + uy * uy).sqrt() - 1.0).abs() > 1e-5 {
        return Err((format!("rect:up-axis-not-unit{dom}"), show("up axis is not unit length".into())));
    }
    // exact hull on the integer grid => only f32 rounding of the projections;
    // otherwise the hull's own tolerance is inherited
    let tol = if c.strict() { RND * (sc.d + sc.m) } else { TAU * sc.d + RND * (sc.d + sc.m) };
    let pp = to_p(pts);
    // perpendicular to up (any sign: the extent is symmetric)
    let (px, py) = (uy, -ux);
    for (k, q) in pp.iter().enumerate() {
        let (dx, dy) = (q.x - cx, q.y - cy);
        let (eu, ep) = ((dx * ux + dy * uy).abs() - h / 2.0, (dx * px + dy * py).abs() - w / 2.0);
        if eu > tol || ep > tol {
            return Err((
                format!("rect:point-outside{dom}"),
                show(format!(
                    "input point #{k} {:?} is outside the rectangle by {:e} (tolerance {tol:e}, diameter {:e})",
                    pts[k],
                    eu.max(ep),
                    sc.d
                )),
            ));
        }
    }
    // the same through the reconstructed corners
    let cs: Vec<P> = r.corners().iter().map(|q| geom::p(q.x as f64, q.y as f64)).collect();
    let area_sign = geom::shoelace(&cs).signum();
    for i in 0..4 {
        let (a, b) = (cs[i], cs[(i + 1) % 4]);
        let len = geom::dist(a, b);
        if len <= tol {
            continue;
        }
        for (k, q) in pp.iter().enumerate() {
            let sd = area_sign * geom::cross(a, b, *q) / len;
            if area_sign != 0.0 && sd < -2.0 * tol {
                return Err((
                    format!("rect:point-outside-corners{dom}"),
                    show(format!("input point #{k} {:?} is {:e} outside corner edge {i} (tolerance {:e})", pts[k], -sd, 2.0 * tol)),
                ));
            }
        }
    }
    // never larger than the axis-aligned bounding box
    let (mut x0, mut x1, mut y0, mut y1) = (f64::INFINITY, f64::NEG_INFINITY, f64::INFINITY, f64::NEG_INFINITY);
    for q in &pp {
        x0 = x0.min(q.x);
        x1 = x1.max(q.x);
        y0 = y0.min(q.y);
        y1 = y1.max(q.y);
    }
    let bbox = (x1 - x0) * (y1 - y0);
    if w * h > bbox * (1.0 + TAU) + RND * (sc.d + sc.m) * sc.d {
        return Err((
            format!("rect:larger-than-bbox{dom}"),
            show(format!("rect area {:e} exceeds bounding-box area {bbox:e}", w * h)),
        ));
    }
    if ux.abs() > 1e-3 && uy.abs() > 1e-3 {
        labels.push("rect-rotated");
    }
    if w * h < bbox * 0.999 {
        labels.push("rect-smaller-than-bbox");
    }
    Ok(())
}

// ---------------------------------------------------------------------------
// simplify_polyline / simplify_polygon
// ---------------------------------------------------------------------------

fn check_simplified(
    which: &'static str,
    pts: &[PointF],
    out: &[PointF],
    eps: f32,
    closed: bool,
    sc: &Scale,
    labels: &mut Vec<&'static str>,
) -> Result<(), Fail> {
    let show = |why: String| format!("{which}(eps={eps:e}): {why}; input {pts:?} -> {out:?}");
    // subsequence (greedy matching decides existence)
    let mut j = 0;
    for q in pts {
        if j < out.len() && same(*q, out[j]) {
            j += 1;
        }
    }
    if j != out.len() {
        return Err((format!("{which}:not-a-subsequence"), show(format!("output element #{j} has no match in input order"))));
    }
    if pts.is_empty() {
        return Ok(());
    }
    if out.is_empty() || !same(out[0], pts[0]) {
        return Err((format!("{which}:first-point-dropped"), show("first input point is not the first output point".into())));
    }
    if !closed && !same(*out.last().unwrap(), *pts.last().unwrap()) {
        return Err((format!("{which}:last-point-dropped"), show("last input point is not the last output point".into())));
    }
    let (pp, op) = (to_p(pts), to_p(out));
    let tol = RND * (sc.d + sc.m);
    for (k, q) in pp.iter().enumerate() {
        let dist = geom::outline_dist(*q, &op, closed);
        if dist > eps as f64 + tol {
            return Err((
                format!("{which}:removed-point-too-far"),
                show(format!("input point #{k} {:?} is {dist:e} from the simplified outline (> eps + {tol:e})", pts[k])),
            ));
        }
    }
    if out.len() < pts.len() {
        labels.push("simplify-removed-points");
    }
    if out.len() > 2 && out.len() < pts.len() {
        labels.push("simplify-partial");
    }
    Ok(())
}

// ---------------------------------------------------------------------------
// oracles per sub-check
// ---------------------------------------------------------------------------

fn scale_of(pts: &[PointF]) -> Scale {
    let pp = to_p(pts);
    Scale { d: geom::diameter(&pp), m: geom::max_abs(&pp) }
}

fn base_labels(c: &Case) -> Vec<&'static str> {
    let mut l = vec![CLASSES[(c.class as usize).min(CLASSES.len() - 1)], c.xform().0];
    l.push(if c.strict() { "strict-oracle" } else { "tolerant-oracle" });
    match c.pts.len() {
        0 => l.push("n=0"),
        1 => l.push("n=1"),
        2 => l.push("n=2"),
        _ => {}
    }
    l
}

fn oracle_hull(c: &Case) -> Verdict {
    vc_imageproc::own_panics_only();
    let pts = c.points();
    let sc = scale_of(&pts);
    let mut labels = base_labels(c);
    let hull = convex_hull(&pts);
    if let Err((s, d)) = check_hull(c, &pts, &hull, &sc, &mut labels) {
        return Verdict::fail(s, d);
    }
    Verdict::pass_l(c.distinct() >= 3, labels)
}


/// Power-of-two scaling sub-check. Lattice points with |c| <= 20 are scaled by
/// 2^exp (exact in f32, and all coordinate differences stay exact), so the hull
/// of the scaled points must be the scaled hull of the lattice points. The
/// returned hull is unscaled (exact) and judged by the strict integer oracle.
/// Reaches magnitudes (1e-29 .. 9e19) where squared f32 distances underflow or
/// overflow although every coordinate is an ordinary finite f32.
#[derive(Clone, Debug, Serialize, Deserialize)]
struct Pow2Case {
    pts: Vec<(i16, i16)>,
    exp: i8,
}

const POW2_EXPS: [i8; 12] = [-100, -90, -80, -76, -70, -40, 0, 40, 56, 60, 62, 64];

fn oracle_hull_pow2(c: &Pow2Case) -> Verdict {
    vc_imageproc::own_panics_only();
    let s = (c.exp as f32).exp2();
    let lat: Vec<(i16, i16)> = c.pts.iter().map(|&(x, y)| (x.clamp(-20, 20), y.clamp(-20, 20))).collect();
    let scaled: Vec<PointF> = lat.iter().map(|&(x, y)| PointF::from_yx(y as f32 * s, x as f32 * s)).collect();
    let hull = convex_hull(&scaled);
    let inv = 1.0 / s; // exact: s is a power of two
    let unscaled_hull: Vec<PointF> = hull.iter().map(|q| PointF::from_yx(q.y * inv, q.x * inv)).collect();
    let base = Case { class: 0, pts: lat, xf: 0, eps_q: 0 };
    let pts = base.points();
    let sc = scale_of(&pts);
    let mut labels: Vec<&'static str> = vec!["pow2-scale", "strict-oracle"];
    labels.push(if c.exp >= 56 { "squares-overflow-f32" } else if c.exp <= -70 { "squares-underflow-f32" } else { "squares-normal" });
    if let Err((sig, d)) = check_hull(&base, &pts, &unscaled_hull, &sc, &mut labels) {
        return Verdict::fail(format!("{sig}@pow2-scale"), format!("scale 2^{}: {d}", c.exp));
    }
    Verdict::pass_l(base.distinct() >= 3, labels)
}

fn pow2_case() -> impl Strategy<Value = Pow2Case> {
    let uniform = prop::collection::vec(((-20i16..=20), (-20i16..=20)), 0..=16);
    let small = prop::collection::vec(((-3i16..=3), (-3i16..=3)), 0..=16);
    // points on a few rays from a common lowest point, in generated order (so a farther point may precede a nearer one)
    let rays = (prop::collection::vec(((-3i16..=3), (-3i16..=0), 1i16..=6), 1..=10), prop::collection::vec(((-20i16..=20), (-20i16..=20)), 0..=2), any::<bool>()).prop_map(
        |(r, extra, with_origin)| {
            let mut v: Vec<(i16, i16)> = r.iter().map(|&(dx, dy, k)| (dx * k, dy * k)).collect();
            if with_origin {
                v.insert(0, (0, 0));
            }
            v.extend(extra);
            v
        },
    );
    let pts = prop_oneof![2 => uniform, 2 => small, 4 => rays];
    (pts, 0usize..POW2_EXPS.len()).prop_map(|(pts, e)| Pow2Case { pts, exp: POW2_EXPS[e] })
}

fn oracle_rect(c: &Case) -> Verdict {
    vc_imageproc::own_panics_only();
    let pts = c.points();
    let sc = scale_of(&pts);
    let mut labels = base_labels(c);
    // min_area_rect is built on convex_hull: attribute a wrong hull to the hull
    let hull = convex_hull(&pts);
    if let Err((s, d)) = check_hull(c, &pts, &hull, &sc, &mut Vec::new()) {
        return Verdict::fail(s, d);
    }
    if let Err((s, d)) = check_rect(c, &pts, &sc, &mut labels) {
        // min_area_rect assumes every hull edge is oriented the same way; a
        // hull that folds back along a ray (below the hull check's tolerance)
        // makes it pick a degenerate rectangle: same root cause as the hull
        if f32_predicate_diverged(&pts, &hull) {
            let dom = if c.strict() { "@int-grid" } else { "@float" };
            return Verdict::fail(format!("hull:f32-predicate-inexact{dom}"), format!("(via min_area_rect) {d}"));
        }
        return Verdict::fail(s, d);
    }
    Verdict::pass_l(c.distinct() >= 3, labels)
}

fn oracle_simplify(c: &Case) -> Verdict {
    vc_imageproc::own_panics_only();
    let pts = c.points();
    let sc = scale_of(&pts);
    let mut labels = base_labels(c);
    let eps = (c.eps_q as f64 / 1000.0 * sc.d) as f32;
    if c.eps_q == 0 {
        labels.push("eps=0");
    }
    let line = simplify_polyline(&pts, eps);
    if let Err((s, d)) = check_simplified("simplify_polyline", &pts, &line, eps, false, &sc, &mut labels) {
        return Verdict::fail(s, d);
    }
    let poly = match vcore::catch(|| simplify_polygon(&pts, eps)) {
        Ok(p) => p,
        Err(p) => {
            let sig = if pts.is_empty() {
                "simplify_polygon:panic-on-empty-input".to_string()
            } else {
                format!("simplify_polygon:{}", p.signature())
            };
            return Verdict::fail(sig, format!("simplify_polygon({pts:?}, {eps:e}) panicked: {} at {}", p.msg, p.loc()));
        }
    };
    if let Err((s, d)) = check_simplified("simplify_polygon", &pts, &poly, eps, true, &sc, &mut labels) {
        return Verdict::fail(s, d);
    }
    Verdict::pass_l(c.distinct() >= 3, labels)
}

// ---------------------------------------------------------------------------
// generators
// ---------------------------------------------------------------------------

fn pt(r: i16) -> impl Strategy<Value = (i16, i16)> {
    (-r..=r, -r..=r)
}

fn clamp20(v: i32) -> i16 {
    v.clamp(-20, 20) as i16
}

fn lattice() -> impl Strategy<Value = (u8, Vec<(i16, i16)>)> {
    let grid20 = prop::collection::vec(pt(20), 0..=40).prop_map(|v| (0u8, v));
    let grid3 = prop::collection::vec(pt(3), 0..=40).prop_map(|v| (1u8, v));
    let collinear = (pt(2), pt(3), prop::collection::vec(-6i16..=6, 0..=30), prop::collection::vec(pt(20), 0..=2))
        .prop_map(|(b, d, ts, extra)| {
            let d = if d == (0, 0) { (1, 0) } else { d };
            let mut v: Vec<(i16, i16)> = ts.iter().map(|t| (b.0 + t * d.0, b.1 + t * d.1)).collect();
            v.extend(extra);
            v
        })
        .prop_shuffle()
        .prop_map(|v| (2u8, v));
    let duplicates = (prop::collection::vec(pt(20), 1..=4), prop::collection::vec(any::<u16>(), 0..=40))
        .prop_map(|(d, idx)| (3u8, idx.iter().map(|&i| d[vcore::pick_idx(i, d.len())]).collect()));
    let cluster = (
        pt(15000),
        prop_oneof![Just(1i16), Just(2), Just(5), Just(50)],
        prop::collection::vec((any::<i8>(), any::<i8>()), 1..=30),
        prop::collection::vec(pt(20000), 1..=2),
    )
        .prop_map(|(c, r, offs, out)| {
            let mut v: Vec<(i16, i16)> = offs
                .iter()
                .map(|&(a, b)| (c.0 + (a as i16 * r) / 127, c.1 + (b as i16 * r) / 127))
                .collect();
            v.extend(out);
            v
        })
        .prop_shuffle()
        .prop_map(|v| (4u8, v));
    let walk = (pt(5), prop::collection::vec(pt(2), 0..=39)).prop_map(|(s, steps)| {
        let mut v = vec![s];
        let (mut x, mut y) = (s.0 as i32, s.1 as i32);
        for (dx, dy) in steps {
            x = clamp20(x + dx as i32) as i32;
            y = clamp20(y + dy as i32) as i32;
            v.push((x as i16, y as i16));
        }
        (5u8, v)
    });
    let big = prop::collection::vec(pt(20000), 0..=40).prop_map(|v| (6u8, v));
    let border = (pt(8), 0i16..=10, 0i16..=10, any::<u16>(), prop::collection::vec((any::<u16>(), pt(1)), 0..=3)).prop_map(
        |(tl, w, h, rot, noise)| {
            // border pixels of a w x h rectangle in counter-clockwise order, as
            // find_contours would produce them, rotated start, a few displaced
            let mut v: Vec<(i16, i16)> = Vec::new();
            for y in 0..=h {
                v.push((tl.0, tl.1 + y));
            }
            for x in 1..=w {
                v.push((tl.0 + x, tl.1 + h));
            }
            if w > 0 {
                for y in (0..h).rev() {
                    v.push((tl.0 + w, tl.1 + y));
                }
            }
            if h > 0 {
                for x in (1..w).rev() {
                    v.push((tl.0 + x, tl.1));
                }
            }
            v.truncate(40);
            let n = v.len();
            v.rotate_left(vcore::pick_idx(rot, n));
            for (i, (dx, dy)) in noise {
                let k = vcore::pick_idx(i, n);
                v[k] = (clamp20((v[k].0 + dx) as i32), clamp20((v[k].1 + dy) as i32));
            }
            (7u8, v)
        },
    );
    prop_oneof![
        4 => grid20,
        2 => grid3,
        3 => collinear,
        1 => duplicates,
        3 => cluster,
        3 => walk,
        2 => big,
        2 => border,
    ]
}

fn case() -> impl Strategy<Value = Case> {
    let xf = prop_oneof![6 => Just(0u8), 6 => 1u8..XFORMS.len() as u8];
    let eps = prop_oneof![2 => Just(0u16), 1 => 1u16..=5, 4 => 0u16..=1200];
    (lattice(), xf, eps).prop_map(|((class, pts), xf, eps_q)| Case { class, pts, xf, eps_q })
}

fn main() {
    // the check itself needs well under 1 GiB
    vc_imageproc::limit_address_space(6 << 30);
    let mut ck = Check::new("C35");
    ck.rule(
        "Case = (0..=40 lattice points (i16 x,y) from one of 8 classes: uniform |c|<=20, uniform |c|<=3, collinear (+0..2 \
         off-line points, shuffled), 1..4 distinct points repeated, tight cluster (radius 1..50) + 1..2 outliers on a |c|<=20000 \
         lattice, random walk, uniform |c|<=20000, rectangle border in contour order with displaced points; a transform \
         p = lattice*scale+offset in f32 from {1, 1e-6, 1e6, 0.1, 1+(1e4,-1e4), 1+(1e6,1e6), 1e-3+(1,1)}; epsilon = q/1000*diameter, \
         q in {0, 1..5, 0..1200}). Sub-check `hull-subsets` enumerates every subset of a 4x4 (quick) / 5x5 (thorough) integer \
         grid. Sub-check `hull-pow2-scale`: 0..=16 lattice points with |c|<=20 (uniform, |c|<=3, or multiples along rays from a common lowest point in generated order) scaled exactly by 2^e, e in {-100..64}, so squared f32 distances under/overflow; the hull is unscaled exactly and judged by the strict integer oracle. Each sub-check applies the validity predicates of one function family to the case. Strict (exact integer) oracle \
         when the transform is the identity and |c|<=20, tolerant f64 oracle otherwise. Non-trivial = at least 3 distinct points. \
         Distinct = distinct Debug rendering of the case.",
    );
    ck.assume("tolerant domain: hull errors up to 1e-3*diameter are accepted (f32 cosine sort key resolution 3.5e-4 rad); rectangle/simplify f32 rounding up to 1e-5*(diameter+max|coordinate|)");
    ck.assume("coordinates are finite and within 1e-6..2e10 in magnitude (squares neither underflow nor overflow); epsilon >= 0 (simplify_polyline asserts it)");
    ck.assume("'within epsilon of the simplified outline' is the distance to the nearest segment of the whole simplified outline (closed for simplify_polygon)");
    ck.set_threads(16);

    let n = ck.pick(1_500_000, 12_000_000);
    // poly_algos.rs / shapes.rs / math.rs contain no unsafe code: a signal is
    // not a plausible outcome of hull / rectangle cases, and there are many
    ck.set_slots(false);
    ck.prop("hull", n, case, oracle_hull);
    ck.prop("hull-pow2-scale", n / 5, pow2_case, oracle_hull_pow2);
    ck.prop("min-area-rect", n, case, oracle_rect);
    // simplify_polyline is recursive: keep crash attribution (stack overflow)
    ck.set_slots(true);
    ck.prop("simplify", n / 5, case, oracle_simplify);
    ck.set_slots(false);

    // every subset of a small integer grid (strict oracle), hull + rectangle
    let side: u64 = ck.pick(4, 5);
    let cells = side * side;
    ck.enumerate_par(
        "hull-subsets",
        true,
        1u64 << cells,
        |bits| {
            let mut pts = Vec::new();
            for k in 0..cells {
                if bits >> k & 1 == 1 {
                    pts.push(((k % side) as i16, (k / side) as i16));
                }
            }
            Case { class: 8, pts, xf: 0, eps_q: 0 }
        },
        oracle_rect,
    );
    ck.finish();
}

//! Shared reference code for the rten-imageproc checks (C35, C36).
//!
//! Everything here is independent of the code under test: plain f64 / integer
//! geometry and a flood-fill labelling of binary masks.

/// vcore::catch attributes a panic to "the first panic recorded on any other
/// thread" unless the calling thread has adopted delegate threads; with 16
/// runner threads panicking concurrently that picks up another runner's panic.
/// Adopting the current thread itself makes `catch` use this thread's record.
pub fn own_panics_only() {
    vcore::adopt_threads(vec![std::thread::current().id()]);
}

/// Cap the address space of this process. A defect that makes the code under
/// test allocate without bound (e.g. a simplification that never terminates
/// and keeps appending output points) then aborts on a failed allocation
/// within seconds - a signal the engine attributes to the running case -
/// instead of exhausting the machine's memory until the watchdog fires.
pub fn limit_address_space(bytes: u64) {
    let lim = libc::rlimit { rlim_cur: bytes as libc::rlim_t, rlim_max: bytes as libc::rlim_t };
    unsafe {
        libc::setrlimit(libc::RLIMIT_AS, &lim);
    }
}

/// CPU time consumed by the calling thread, in seconds.
pub fn thread_cpu_seconds() -> f64 {
    let mut ts = libc::timespec { tv_sec: 0, tv_nsec: 0 };
    unsafe {
        libc::clock_gettime(libc::CLOCK_THREAD_CPUTIME_ID, &mut ts);
    }
    ts.tv_sec as f64 + ts.tv_nsec as f64 * 1e-9
}

pub mod geom {
    /// A point in f64. f32 inputs convert exactly.
    #[derive(Clone, Copy, Debug, PartialEq)]
    pub struct P {
        pub x: f64,
        pub y: f64,
    }

    pub fn p(x: f64, y: f64) -> P {
        P { x, y }
    }

    /// (a - o) x (b - o). For f32-origin coordinates of similar magnitude the
    /// differences and both products are exact in f64, so the sign is exact.
    pub fn cross(o: P, a: P, b: P) -> f64 {
        (a.x - o.x) * (b.y - o.y) - (a.y - o.y) * (b.x - o.x)
    }

    pub fn dist(a: P, b: P) -> f64 {
        ((a.x - b.x).powi(2) + (a.y - b.y).powi(2)).sqrt()
    }

    /// Distance from `q` to the closed segment [a, b].
    pub fn seg_dist(q: P, a: P, b: P) -> f64 {
        let (dx, dy) = (b.x - a.x, b.y - a.y);
        let l2 = dx * dx + dy * dy;
        if l2 == 0.0 {
            return dist(q, a);
        }
        let t = (((q.x - a.x) * dx + (q.y - a.y) * dy) / l2).clamp(0.0, 1.0);
        dist(q, p(a.x + t * dx, a.y + t * dy))
    }

    /// Distance from `q` to the outline through `pts` (closed: last connects to
    /// first). Infinity for an empty outline.
    pub fn outline_dist(q: P, pts: &[P], closed: bool) -> f64 {
        match pts.len() {
            0 => f64::INFINITY,
            1 => dist(q, pts[0]),
            n => {
                let mut best = f64::INFINITY;
                let last = if closed { n } else { n - 1 };
                for i in 0..last {
                    best = best.min(seg_dist(q, pts[i], pts[(i + 1) % n]));
                }
                best
            }
        }
    }

    /// Signed shoelace area.
    pub fn shoelace(pts: &[P]) -> f64 {
        let n = pts.len();
        if n < 3 {
            return 0.0;
        }
        let o = pts[0];
        let mut a = 0.0;
        for i in 1..n - 1 {
            a += cross(o, pts[i], pts[i + 1]);
        }
        a / 2.0
    }

    pub fn perimeter(pts: &[P]) -> f64 {
        let n = pts.len();
        if n < 2 {
            return 0.0;
        }
        (0..n).map(|i| dist(pts[i], pts[(i + 1) % n])).sum()
    }

    /// Non-zero winding number test (points on the boundary may go either way;
    /// callers combine this with `outline_dist`).
    pub fn winding_contains(q: P, poly: &[P]) -> bool {
        let n = poly.len();
        if n < 3 {
            return false;
        }
        let mut wn = 0i32;
        for i in 0..n {
            let (a, b) = (poly[i], poly[(i + 1) % n]);
            if a.y <= q.y {
                if b.y > q.y && cross(a, b, q) > 0.0 {
                    wn += 1;
                }
            } else if b.y <= q.y && cross(a, b, q) < 0.0 {
                wn -= 1;
            }
        }
        wn != 0
    }

    /// Reference convex hull (Andrew's monotone chain, strict: no collinear
    /// vertices), counter-clockwise in a y-up frame.
    pub fn ref_hull(pts: &[P]) -> Vec<P> {
        let mut v: Vec<P> = pts.to_vec();
        v.sort_by(|a, b| a.x.total_cmp(&b.x).then(a.y.total_cmp(&b.y)));
        v.dedup();
        if v.len() < 3 {
            return v;
        }
        let mut h: Vec<P> = Vec::with_capacity(v.len() + 1);
        for &q in &v {
            while h.len() >= 2 && cross(h[h.len() - 2], h[h.len() - 1], q) <= 0.0 {
                h.pop();
            }
            h.push(q);
        }
        let lower = h.len() + 1;
        for &q in v.iter().rev().skip(1) {
            while h.len() >= lower && cross(h[h.len() - 2], h[h.len() - 1], q) <= 0.0 {
                h.pop();
            }
            h.push(q);
        }
        h.pop();
        h
    }

    pub fn diameter(pts: &[P]) -> f64 {
        let mut d: f64 = 0.0;
        for i in 0..pts.len() {
            for j in i + 1..pts.len() {
                d = d.max(dist(pts[i], pts[j]));
            }
        }
        d
    }

    pub fn max_abs(pts: &[P]) -> f64 {
        pts.iter().fold(0.0, |m, q| m.max(q.x.abs()).max(q.y.abs()))
    }
}

pub mod mask {
    /// Binary mask, row-major.
    #[derive(Clone, Debug)]
    pub struct Mask {
        pub h: usize,
        pub w: usize,
        pub px: Vec<bool>,
    }

    impl Mask {
        pub fn new(h: usize, w: usize) -> Mask {
            Mask { h, w, px: vec![false; h * w] }
        }
        pub fn get(&self, y: i64, x: i64) -> bool {
            y >= 0 && x >= 0 && (y as usize) < self.h && (x as usize) < self.w && self.px[y as usize * self.w + x as usize]
        }
        pub fn inside(&self, y: i64, x: i64) -> bool {
            y >= 0 && x >= 0 && (y as usize) < self.h && (x as usize) < self.w
        }
        pub fn set(&mut self, y: i64, x: i64, v: bool) {
            if self.inside(y, x) {
                self.px[y as usize * self.w + x as usize] = v;
            }
        }
        pub fn render(&self) -> String {
            let mut s = String::new();
            for y in 0..self.h {
                for x in 0..self.w {
                    s.push(if self.px[y * self.w + x] { '#' } else { '.' });
                }
                s.push('/');
            }
            s
        }
    }

    pub const N8: [(i64, i64); 8] = [(-1, -1), (-1, 0), (-1, 1), (0, -1), (0, 1), (1, -1), (1, 0), (1, 1)];
    pub const N4: [(i64, i64); 4] = [(-1, 0), (0, -1), (0, 1), (1, 0)];

    /// 8-connected components of the foreground.
    pub struct Components {
        /// component id per pixel (usize::MAX for background)
        pub id: Vec<usize>,
        /// raster-first pixel (y, x) of each component
        pub first: Vec<(usize, usize)>,
        /// component lies inside a hole of another component, i.e. none of its
        /// pixels is 4-adjacent to background that is 4-connected to the
        /// outside of the image
        pub enclosed: Vec<bool>,
    }

    pub fn components(m: &Mask) -> Components {
        let (h, w) = (m.h, m.w);
        let mut id = vec![usize::MAX; h * w];
        let mut first = Vec::new();
        let mut stack = Vec::new();
        for y in 0..h {
            for x in 0..w {
                if !m.px[y * w + x] || id[y * w + x] != usize::MAX {
                    continue;
                }
                let c = first.len();
                first.push((y, x));
                id[y * w + x] = c;
                stack.push((y as i64, x as i64));
                while let Some((cy, cx)) = stack.pop() {
                    for (dy, dx) in N8 {
                        let (ny, nx) = (cy + dy, cx + dx);
                        if m.get(ny, nx) && id[ny as usize * w + nx as usize] == usize::MAX {
                            id[ny as usize * w + nx as usize] = c;
                            stack.push((ny, nx));
                        }
                    }
                }
            }
        }
        // Outer background: 4-connected flood fill on the mask padded by one
        // background pixel on each side, from the padding.
        let (ph, pw) = (h + 2, w + 2);
        let mut outer = vec![false; ph * pw];
        let fg = |py: usize, px: usize| -> bool { py >= 1 && px >= 1 && m.get(py as i64 - 1, px as i64 - 1) };
        outer[0] = true;
        stack.push((0i64, 0i64));
        while let Some((cy, cx)) = stack.pop() {
            for (dy, dx) in N4 {
                let (ny, nx) = (cy + dy, cx + dx);
                if ny < 0 || nx < 0 || ny as usize >= ph || nx as usize >= pw {
                    continue;
                }
                let k = ny as usize * pw + nx as usize;
                if !outer[k] && !fg(ny as usize, nx as usize) {
                    outer[k] = true;
                    stack.push((ny, nx));
                }
            }
        }
        let mut enclosed = vec![true; first.len()];
        for y in 0..h {
            for x in 0..w {
                let c = id[y * w + x];
                if c == usize::MAX {
                    continue;
                }
                for (dy, dx) in N4 {
                    let (py, px) = (y as i64 + 1 + dy, x as i64 + 1 + dx);
                    if outer[py as usize * pw + px as usize] {
                        enclosed[c] = false;
                    }
                }
            }
        }
        Components { id, first, enclosed }
    }
}

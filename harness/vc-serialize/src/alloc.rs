//! Counting global allocator: records the largest single allocation request
//! made by the current thread between `measure` entry and exit.
//!
//! A binary opts in with
//! `#[global_allocator] static A: vc_serialize::alloc::CountingAlloc = vc_serialize::alloc::CountingAlloc;`
//! and should call `assert!(alloc::installed())` once at start-up so that the
//! allocation oracle can never be silently vacuous.

use std::alloc::{GlobalAlloc, Layout, System};
use std::cell::Cell;

/// Requests at or above this size are refused (null) while a measurement is
/// active: the caller then aborts, which the supervising parent reports as a
/// crash of the in-flight case. Nothing legitimate in a test gets near this.
pub const REFUSE_AT: usize = 8 << 30;

pub struct CountingAlloc;

thread_local! {
    static ACTIVE: Cell<bool> = const { Cell::new(false) };
    static MAX: Cell<usize> = const { Cell::new(0) };
}

#[inline]
fn note(size: usize) -> bool {
    // `try_with`: the allocator is also called during thread teardown.
    ACTIVE
        .try_with(|a| {
            if a.get() {
                let _ = MAX.try_with(|m| {
                    if size > m.get() {
                        m.set(size)
                    }
                });
                size < REFUSE_AT
            } else {
                true
            }
        })
        .unwrap_or(true)
}

unsafe impl GlobalAlloc for CountingAlloc {
    unsafe fn alloc(&self, layout: Layout) -> *mut u8 {
        if !note(layout.size()) {
            return std::ptr::null_mut();
        }
        System.alloc(layout)
    }
    unsafe fn alloc_zeroed(&self, layout: Layout) -> *mut u8 {
        if !note(layout.size()) {
            return std::ptr::null_mut();
        }
        System.alloc_zeroed(layout)
    }
    unsafe fn realloc(&self, ptr: *mut u8, layout: Layout, new_size: usize) -> *mut u8 {
        if !note(new_size) {
            return std::ptr::null_mut();
        }
        System.realloc(ptr, layout, new_size)
    }
    unsafe fn dealloc(&self, ptr: *mut u8, layout: Layout) {
        System.dealloc(ptr, layout)
    }
}

struct Guard {
    prev_active: bool,
    prev_max: usize,
}

impl Drop for Guard {
    fn drop(&mut self) {
        // nested measurements: the outer one sees the inner maximum too
        let inner = MAX.with(|m| m.get());
        MAX.with(|m| m.set(self.prev_max.max(inner)));
        ACTIVE.with(|a| a.set(self.prev_active));
    }
}

/// Run `f` and return its result with the largest single allocation request
/// (bytes) made by this thread while it ran. Unwinding out of `f` restores the
/// previous state.
pub fn measure<T>(f: impl FnOnce() -> T) -> (T, usize) {
    let guard = Guard {
        prev_active: ACTIVE.with(|a| a.replace(true)),
        prev_max: MAX.with(|m| m.replace(0)),
    };
    let r = f();
    let max = MAX.with(|m| m.get());
    drop(guard);
    (r, max)
}

/// True when `CountingAlloc` is this process's global allocator.
pub fn installed() -> bool {
    let (v, max) = measure(|| std::hint::black_box(Vec::<u8>::with_capacity(std::hint::black_box(54_321))));
    drop(std::hint::black_box(v));
    max >= 54_321
}

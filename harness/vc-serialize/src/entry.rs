//! Oracles on the readers/writers of rten-serialize. Everything here is a pure
//! function of its input bytes / views. The libFuzzer targets and the stable
//! harness call the same functions.

use crate::alloc;
use crate::model::{dense_of_value, Dense};
use rten_serialize::{npy, npz, safetensors, Value, View};
use serde::{Deserialize, Serialize};
use std::collections::HashMap;
use std::io::{self, Cursor, Read, Seek, SeekFrom};

#[derive(Clone, Copy, Debug, PartialEq, Eq, Hash, Serialize, Deserialize)]
pub enum Fmt {
    Npy,
    Npz,
    St,
}

impl Fmt {
    pub fn name(self) -> &'static str {
        match self {
            Fmt::Npy => "npy",
            Fmt::Npz => "npz",
            Fmt::St => "safetensors",
        }
    }
}

#[derive(Debug, Clone)]
pub struct Violation {
    pub sig: String,
    pub detail: String,
}

fn viol(sig: impl Into<String>, detail: impl Into<String>) -> Violation {
    Violation { sig: sig.into(), detail: detail.into() }
}

/// `panic@<file>:<message class>` with machine-specific registry prefixes removed.
pub fn panic_sig(p: &vcore::PanicInfo) -> String {
    let s = p.signature();
    match s.find("/registry/src/") {
        Some(i) => {
            let rest = &s[i + "/registry/src/".len()..];
            let rest = rest.split_once('/').map(|x| x.1).unwrap_or(rest);
            format!("panic@{rest}")
        }
        None => match s.strip_prefix("panic@/rustc/") {
            // standard library source: drop the compiler commit hash
            Some(rest) => format!("panic@{}", rest.split_once('/').map(|x| x.1).unwrap_or(rest)),
            None => s,
        },
    }
}

/// Digits collapsed, bounded length: stable class of an error message.
pub fn msg_class(s: &str) -> String {
    let mut out = String::new();
    let mut last_digit = false;
    for c in s.chars().take(70) {
        if c.is_ascii_digit() {
            if !last_digit {
                out.push('#');
            }
            last_digit = true;
        } else {
            out.push(c);
            last_digit = false;
        }
    }
    out
}

/// In-memory reader that counts calls; past the budget it returns errors, so a
/// reader that loops on a stuck stream is noticed deterministically.
struct Budgeted<'a> {
    cur: Cursor<&'a [u8]>,
    ops: u64,
    limit: u64,
}

impl Read for Budgeted<'_> {
    fn read(&mut self, buf: &mut [u8]) -> io::Result<usize> {
        self.ops += 1;
        if self.ops > self.limit {
            return Err(io::Error::other("harness: read budget exhausted"));
        }
        self.cur.read(buf)
    }
}
impl Seek for Budgeted<'_> {
    fn seek(&mut self, pos: SeekFrom) -> io::Result<u64> {
        self.ops += 1;
        if self.ops > self.limit {
            return Err(io::Error::other("harness: read budget exhausted"));
        }
        self.cur.seek(pos)
    }
}

/// Does the byte string contain a zip header that selects a compression
/// method other than "stored"? (Such a member may legitimately expand ~1000x.)
fn has_compressed_member(bytes: &[u8]) -> bool {
    let mut i = 0;
    while i + 12 <= bytes.len() {
        if bytes[i] == b'P' && bytes[i + 1] == b'K' {
            let off = match (bytes[i + 2], bytes[i + 3]) {
                (3, 4) => Some(8),
                (1, 2) => Some(10),
                _ => None,
            };
            if let Some(off) = off {
                if bytes[i + off] != 0 || bytes[i + off + 1] != 0 {
                    return true;
                }
            }
        }
        i += 1;
    }
    false
}

/// Largest single allocation a reader may request for an input of this size:
/// 64*len + 1 MiB. Two documented relaxations for zip input (see NOTES.md,
/// soundness ledger): a member stored with a compression method may expand
/// ~1000x (factor 1100), and the zip crate pre-sizes its entry table from the
/// 16-bit entry count of the end record (<= 65535 entries * 232 B = 14.5 MiB,
/// a constant), so the constant term is 16 MiB.
pub fn alloc_bound(fmt: Fmt, bytes: &[u8]) -> usize {
    let factor = if fmt == Fmt::Npz && has_compressed_member(bytes) { 1100 } else { 64 };
    let slack = if fmt == Fmt::Npz { 16 << 20 } else { 1 << 20 };
    bytes.len().saturating_mul(factor).saturating_add(slack)
}

/// Allocation sizes that the length fields of an npy stream ask for:
/// (header length, "npy-header-len") and (shape product * item size,
/// "npy-data-capacity"). Only used to name the root cause in a signature.
fn npy_length_fields(b: &[u8], out: &mut Vec<(usize, &'static str)>) {
    let mut i = 0;
    while i + 10 <= b.len() {
        if &b[i..i + 6] != b"\x93NUMPY" {
            i += 1;
            continue;
        }
        let (hl, hs) = if b[i + 6] == 1 {
            (u16::from_le_bytes([b[i + 8], b[i + 9]]) as usize, i + 10)
        } else if i + 12 <= b.len() {
            (u32::from_le_bytes([b[i + 8], b[i + 9], b[i + 10], b[i + 11]]) as usize, i + 12)
        } else {
            break;
        };
        out.push((hl, "npy-header-len"));
        let text = String::from_utf8_lossy(&b[hs.min(b.len())..hs.saturating_add(hl).min(b.len())]).to_string();
        // every quoted dtype string and every parenthesised digit tuple in the
        // header text (keys may repeat; the last one wins in the reader)
        let mut items: Vec<usize> = Vec::new();
        for (k, _) in text.match_indices("'descr'") {
            let t = &text[k + 7..];
            if let Some(q1) = t.find('\'') {
                if let Some(q2) = t[q1 + 1..].find('\'') {
                    let d: String = t[q1 + 1..q1 + 1 + q2].chars().skip(2).collect();
                    if let Ok(n) = d.parse::<usize>() {
                        items.push(n);
                    }
                }
            }
        }
        let mut counts: Vec<usize> = Vec::new();
        for (o, _) in text.match_indices('(') {
            let t = &text[o + 1..];
            let c = t.find(')').unwrap_or(t.len());
            if let Some(n) = t[..c]
                .split(|ch: char| !ch.is_ascii_digit())
                .filter(|d| !d.is_empty())
                .try_fold(1usize, |a, d| a.checked_mul(d.parse::<usize>().ok()?))
            {
                counts.push(n);
            }
        }
        for item in &items {
            for count in &counts {
                if let Some(n) = count.checked_mul(*item) {
                    out.push((n, "npy-data-capacity"));
                }
            }
        }
        i += 6;
    }
}

fn alloc_site(fmt: Fmt, bytes: &[u8], max_alloc: usize) -> Option<&'static str> {
    let mut fields = Vec::new();
    match fmt {
        Fmt::St => return None,
        Fmt::Npy => npy_length_fields(bytes, &mut fields),
        Fmt::Npz => {
            // look inside the members (also compressed ones) with the zip crate
            npy_length_fields(bytes, &mut fields);
            let members = vcore::catch(|| {
                let mut out: Vec<Vec<u8>> = Vec::new();
                if let Ok(mut ar) = zip::ZipArchive::new(Cursor::new(bytes)) {
                    for i in 0..ar.len().min(16) {
                        if let Ok(mut f) = ar.by_index(i) {
                            // byte-wise: keep everything a corrupt stream yields before failing
                            let mut head = Vec::new();
                            let mut one = [0u8; 1];
                            while head.len() < 4096 && matches!(f.read(&mut one), Ok(1)) {
                                head.push(one[0]);
                            }
                            out.push(head);
                        }
                    }
                }
                out
            })
            .unwrap_or_default();
            for m in &members {
                npy_length_fields(m, &mut fields);
            }
        }
    }
    if let Some(f) = fields.iter().find(|(n, _)| *n == max_alloc) {
        return Some(f.1);
    }
    if fmt == Fmt::Npz {
        // entry counts claimed by end-of-central-directory records
        let mut counts: Vec<u64> = Vec::new();
        for i in 0..bytes.len().saturating_sub(3) {
            let le = |o: usize, w: usize| -> Option<u64> {
                let s = bytes.get(i + o..i + o + w)?;
                let mut b = [0u8; 8];
                b[..w].copy_from_slice(s);
                Some(u64::from_le_bytes(b))
            };
            if &bytes[i..i + 4] == b"PK\x05\x06" {
                counts.extend([le(8, 2), le(10, 2)].into_iter().flatten());
            } else if &bytes[i..i + 4] == b"PK\x06\x06" {
                counts.extend([le(24, 8), le(32, 8)].into_iter().flatten());
            }
        }
        let m = max_alloc as u64;
        if counts.iter().any(|c| *c > 0 && m % *c == 0 && (64..=2048).contains(&(m / *c))) {
            return Some("zip-entry-count");
        }
    }
    None
}

#[derive(Debug, Clone)]
pub struct ReadOutcome {
    /// Sorted by name. npy files yield one entry named "".
    pub values: Result<Vec<(String, Dense)>, String>,
    pub max_alloc: usize,
    pub io_ops: u64,
}

fn sorted_dense(m: &HashMap<String, Value>) -> Vec<(String, Dense)> {
    let mut v: Vec<(String, Dense)> = m.iter().map(|(k, v)| (k.clone(), dense_of_value(v))).collect();
    v.sort_by(|a, b| a.0.cmp(&b.0));
    v
}

enum Parsed {
    One(Value),
    Many(HashMap<String, Value>),
}

/// Read `bytes` as `fmt` and enforce: no panic, bounded allocation, bounded
/// number of I/O calls. When the reader accepts the file, additionally
/// enforce that the accepted value survives write -> read unchanged and that
/// the single-array accessors agree with the map readers.
pub fn check_read(fmt: Fmt, bytes: &[u8]) -> Result<ReadOutcome, Violation> {
    let limit = 100_000 + 64 * bytes.len() as u64;
    let mut rd = Budgeted { cur: Cursor::new(bytes), ops: 0, limit };
    let (res, max_alloc) = alloc::measure(|| {
        vcore::catch(|| match fmt {
            Fmt::Npy => npy::read(&mut rd).map(Parsed::One),
            Fmt::Npz => npz::read(&mut rd).map(Parsed::Many),
            Fmt::St => safetensors::read(&mut rd).map(Parsed::Many),
        })
    });
    let io_ops = rd.ops;
    let res = match res {
        Ok(r) => r,
        Err(p) => {
            return Err(viol(
                format!("read-panic:{}:{}", panic_sig(&p), fmt.name()),
                format!("{}::read panicked: {} at {} (input {} bytes: {})", fmt.name(), p.msg, p.loc(), bytes.len(), hex_prefix(bytes)),
            ))
        }
    };
    let err_text = res.as_ref().err().map(|e| e.to_string());
    let bound = alloc_bound(fmt, bytes);
    if max_alloc > bound {
        let sig = match alloc_site(fmt, bytes, max_alloc) {
            Some(site) => format!("alloc-bound:{site}:{}", fmt.name()),
            None => format!(
                "alloc-bound:other:{}:{}",
                fmt.name(),
                err_text.as_deref().map(|e| format!("err={}", msg_class(e))).unwrap_or_else(|| "ok".into())
            ),
        };
        return Err(viol(
            sig,
            format!(
                "{}::read requested a single allocation of {} bytes for a {}-byte input (bound {}); result: {} (input: {})",
                fmt.name(),
                max_alloc,
                bytes.len(),
                bound,
                err_text.as_deref().unwrap_or("Ok"),
                hex_prefix(bytes)
            ),
        ));
    }
    if io_ops > limit {
        return Err(viol(
            format!("read-budget:{}", fmt.name()),
            format!("{}::read made more than {} read/seek calls on a {}-byte input", fmt.name(), limit, bytes.len()),
        ));
    }
    let parsed = match res {
        Err(e) => return Ok(ReadOutcome { values: Err(e.to_string()), max_alloc, io_ops }),
        Ok(p) => p,
    };
    let values = match &parsed {
        Parsed::One(v) => vec![(String::new(), dense_of_value(v))],
        Parsed::Many(m) => sorted_dense(m),
    };
    // an accepted tensor holds exactly prod(shape) elements (exact arithmetic)
    for (name, d) in &values {
        let exact = d.shape.iter().fold(1u128, |a, x| a.saturating_mul(*x as u128));
        if exact != d.bits.len() as u128 {
            return Err(viol(
                format!("accepted-inconsistent:{}", fmt.name()),
                format!(
                    "{}::read returned entry {name:?} with shape {:?} (= {exact} elements) but {} elements (input: {})",
                    fmt.name(),
                    d.shape,
                    d.bits.len(),
                    hex_prefix(bytes)
                ),
            ));
        }
    }
    // single-array accessors agree with the map reader
    if let Parsed::Many(m) = &parsed {
        for (name, expect) in values.iter().take(6) {
            let r = vcore::catch(|| match fmt {
                Fmt::Npz => npz::read_array(Cursor::new(bytes), name),
                _ => safetensors::read_array(bytes, name),
            });
            match r {
                Err(p) => {
                    return Err(viol(
                        format!("read_array-panic:{}:{}", panic_sig(&p), fmt.name()),
                        format!("read_array({name:?}) panicked: {} at {}", p.msg, p.loc()),
                    ))
                }
                Ok(Err(e)) => {
                    // npz: a name whose base is empty cannot be asked for
                    let unaskable = fmt == Fmt::Npz && name.strip_suffix(".npy").unwrap_or(name).is_empty();
                    // npz: asking for "x.npy" means member "x.npy", not "x.npy.npy"
                    let aliased = fmt == Fmt::Npz && name.ends_with(".npy");
                    if !unaskable && !aliased {
                        return Err(viol(
                            format!("read_array-mismatch:{}:err", fmt.name()),
                            format!("read() returned entry {name:?} but read_array({name:?}) fails: {e}"),
                        ));
                    }
                }
                Ok(Ok(v)) => {
                    let got = dense_of_value(&v);
                    let aliased = fmt == Fmt::Npz && name.ends_with(".npy") && m.contains_key(name.strip_suffix(".npy").unwrap());
                    if &got != expect && !aliased {
                        return Err(viol(
                            format!("read_array-mismatch:{}:{}", fmt.name(), got.diff_class(expect)),
                            format!("read_array({name:?}) = {} but read()[{name:?}] = {}", got.describe(), expect.describe()),
                        ));
                    }
                }
            }
        }
    }
    // accepted values must be writable and read back unchanged
    let rewritten = match &parsed {
        Parsed::One(v) => write_npy(v.view()),
        Parsed::Many(m) => {
            let mut items: Vec<(&String, &Value)> = m.iter().collect();
            items.sort_by(|a, b| a.0.cmp(b.0));
            let views: Vec<(String, View)> = items.iter().map(|(k, v)| ((*k).clone(), v.view())).collect();
            match fmt {
                Fmt::Npz => write_npz(views),
                _ => write_st(views),
            }
        }
    }?;
    match rewritten {
        Err(e) => {
            // names that the writers are documented/forced to refuse
            let refusable = match fmt {
                Fmt::Npz => values.iter().any(|(n, _)| n.is_empty() || n.ends_with(".npy")),
                Fmt::St => false,
                Fmt::Npy => false,
            };
            if !refusable {
                return Err(viol(
                    format!("rewrite:{}:write-err:{}", fmt.name(), msg_class(&e)),
                    format!("value accepted by {}::read cannot be written back: {e}", fmt.name()),
                ));
            }
        }
        Ok(bytes2) => {
            let again = vcore::catch(|| match fmt {
                Fmt::Npy => npy::read(&bytes2[..]).map(|v| vec![(String::new(), dense_of_value(&v))]),
                Fmt::Npz => npz::read(Cursor::new(&bytes2[..])).map(|m| sorted_dense(&m)),
                Fmt::St => safetensors::read(&bytes2[..]).map(|m| sorted_dense(&m)),
            });
            match again {
                Err(p) => {
                    return Err(viol(
                        format!("read-panic:{}:{}", panic_sig(&p), fmt.name()),
                        format!("re-reading a rewritten accepted value panicked: {} at {}", p.msg, p.loc()),
                    ))
                }
                Ok(Err(e)) => {
                    return Err(viol(
                        format!("rewrite:{}:reread-err:{}", fmt.name(), msg_class(&e.to_string())),
                        format!("value accepted by read, rewritten, then rejected: {e}"),
                    ))
                }
                Ok(Ok(v2)) => {
                    // npz strips one ".npy" from names on every pass
                    let norm = |n: &str| if fmt == Fmt::Npz { n.strip_suffix(".npy").unwrap_or(n).to_string() } else { n.to_string() };
                    let mut expect: Vec<(String, Dense)> = values.iter().map(|(n, d)| (norm(n), d.clone())).collect();
                    expect.sort_by(|a, b| a.0.cmp(&b.0));
                    let collide = expect.windows(2).any(|w| w[0].0 == w[1].0);
                    if v2 != expect && !collide {
                        return Err(viol(
                            format!("rewrite:{}:changed", fmt.name()),
                            format!(
                                "value accepted by read changes under write->read: first {} vs then {}",
                                describe_all(&expect),
                                describe_all(&v2)
                            ),
                        ));
                    }
                }
            }
        }
    }
    Ok(ReadOutcome { values: Ok(values), max_alloc, io_ops })
}

pub fn describe_all(v: &[(String, Dense)]) -> String {
    v.iter().map(|(n, d)| format!("{n:?}: {}", d.describe())).collect::<Vec<_>>().join("; ")
}

pub fn hex_prefix(b: &[u8]) -> String {
    let n = b.len().min(160);
    let mut s: String = b[..n].iter().map(|x| format!("{x:02x}")).collect();
    if b.len() > n {
        s.push('…');
    }
    s
}

fn write_panic(fmt: Fmt, p: vcore::PanicInfo) -> Violation {
    viol(
        format!("write-panic:{}:{}", fmt.name(), panic_sig(&p)),
        format!("{}::write panicked: {} at {}", fmt.name(), p.msg, p.loc()),
    )
}

/// Outer Err = violation (panic); inner = the writer's own result.
pub fn write_npy(view: View) -> Result<Result<Vec<u8>, String>, Violation> {
    vcore::catch(|| {
        let mut buf = Vec::new();
        npy::write(&mut buf, view).map(|_| buf).map_err(|e| e.to_string())
    })
    .map_err(|p| write_panic(Fmt::Npy, p))
}

pub fn write_npz(items: Vec<(String, View)>) -> Result<Result<Vec<u8>, String>, Violation> {
    vcore::catch(|| {
        let mut buf = Cursor::new(Vec::new());
        npz::write(&mut buf, items).map(|_| buf.into_inner()).map_err(|e| e.to_string())
    })
    .map_err(|p| write_panic(Fmt::Npz, p))
}

pub fn write_st(items: Vec<(String, View)>) -> Result<Result<Vec<u8>, String>, Violation> {
    vcore::catch(|| {
        let mut buf = Vec::new();
        safetensors::write(&mut buf, items).map(|_| buf).map_err(|e| e.to_string())
    })
    .map_err(|p| write_panic(Fmt::St, p))
}

// ---------------------------------------------------------------------------
// libFuzzer entry points
// ---------------------------------------------------------------------------

fn known_signatures() -> &'static Vec<String> {
    static K: std::sync::OnceLock<Vec<String>> = std::sync::OnceLock::new();
    K.get_or_init(|| {
        let path = vcore::verif_root().join("known_findings.jsonl");
        let mut out = Vec::new();
        if let Ok(text) = std::fs::read_to_string(path) {
            for line in text.lines() {
                if let Ok(v) = serde_json::from_str::<serde_json::Value>(line.trim()) {
                    if v["property"] == "C34" && v["status"] == "known" {
                        if let Some(s) = v["signature"].as_str() {
                            out.push(s.to_string());
                        }
                    }
                }
            }
        }
        out
    })
}

pub fn is_known(sig: &str) -> bool {
    known_signatures().iter().any(|k| k == sig || (k.ends_with('*') && sig.starts_with(k.trim_end_matches('*'))))
}

/// Entry point shared by the libFuzzer targets: the oracle of `check_read`;
/// an unlisted violation panics (libFuzzer then saves the input).
pub fn fuzz_entry(fmt: Fmt, data: &[u8]) {
    assert!(alloc_checked(), "the counting allocator is not installed in this binary");
    if let Err(v) = check_read(fmt, data) {
        if !is_known(&v.sig) {
            // outside vcore::catch: the libFuzzer panic hook aborts here
            panic!("C34 VIOLATION signature={} detail={}", v.sig, v.detail);
        }
    }
}

fn alloc_checked() -> bool {
    static OK: std::sync::OnceLock<bool> = std::sync::OnceLock::new();
    *OK.get_or_init(alloc::installed)
}

pub fn fuzz_npy(data: &[u8]) {
    fuzz_entry(Fmt::Npy, data)
}
pub fn fuzz_npz(data: &[u8]) {
    fuzz_entry(Fmt::Npz, data)
}
pub fn fuzz_safetensors(data: &[u8]) {
    fuzz_entry(Fmt::St, data)
}

//! Synthesis of valid and nearly-valid files: a reference encoding of small
//! tensors, field-aware perturbations applied to the *document* (so that
//! lengths, offsets and digits can take any value), then byte-level mutations.

use crate::entry::Fmt;
use crate::model::{small_tensor_case, Dense, TensorCase, DT};
use crate::refcodec::{self, Endian, NpyDoc, StDoc};
use proptest::prelude::*;
use serde::{Deserialize, Serialize};
use std::io::Write;

#[derive(Clone, Copy, Debug, PartialEq, Eq, Serialize, Deserialize)]
pub enum ZipW {
    /// the harness's own stored-only writer
    Reference,
    /// the same, ending with zip64 EOCD record + locator
    Reference64,
    /// `zip` crate, stored
    Stored,
    /// `zip` crate, deflate
    Deflated,
    /// `zip` crate, stored, zip64 extra fields forced
    Stored64,
}

#[derive(Clone, Debug, Serialize, Deserialize)]
pub struct Enc {
    pub npy_version: u8,
    pub endian: Endian,
    pub fortran: bool,
    pub align16: bool,
    pub st_pad: u8,
    pub zip: ZipW,
    /// extra non-array member and archive comment in zip files
    pub zip_extras: bool,
}

#[derive(Clone, Debug, Serialize, Deserialize)]
pub enum Num {
    Abs(u64),
    Delta(i32),
}

impl Num {
    fn apply(&self, base: u64) -> u64 {
        match self {
            Num::Abs(v) => *v,
            Num::Delta(d) => base.wrapping_add(*d as i64 as u64),
        }
    }
}

#[derive(Clone, Copy, Debug, PartialEq, Eq, Serialize, Deserialize)]
pub enum ZipRec {
    Local,
    Central,
    Eocd,
    Eocd64,
    Loc64,
}

#[derive(Clone, Debug, Serialize, Deserialize)]
pub enum FMut {
    // --- npy (member `m` of an npz archive, or the file itself) ---
    NpyVersion { m: u8, major: u8, minor: u8 },
    NpyHeaderLen { m: u8, v: Num },
    NpyDescr { m: u8, s: String },
    NpyFortran { m: u8, s: String },
    /// replace dimension `idx`, or append one when idx >= rank
    NpyDim { m: u8, idx: u8, s: String },
    NpyShapeRaw { m: u8, s: String },
    NpyExtraKey { m: u8, s: String },
    NpyDictRaw { m: u8, s: String },
    NpyDataResize { m: u8, delta: i16 },
    /// regenerate the data section so that it matches the (mutated) header, if
    /// the header is still interpretable and small
    NpyFitData { m: u8 },
    // --- zip container (applied to the bytes) ---
    ZipField { rec: ZipRec, nth: u8, field: u8, v: Num },
    // --- safetensors ---
    StHeaderLen(Num),
    StDtype { e: u8, s: String },
    StDim { e: u8, idx: u8, s: String },
    StBegin { e: u8, s: String },
    StEnd { e: u8, s: String },
    StShift { e: u8, delta: i16 },
    StDataResize(i16),
    StMetadata(String),
    StJsonRaw(String),
    StDupEntry(u8),
    StReverse,
    /// make the data section match the (mutated) header where possible
    StFitData,
}

#[derive(Clone, Debug, Serialize, Deserialize)]
pub enum BMut {
    BitFlip { pos: u16, bit: u8 },
    SetByte { pos: u16, val: u8 },
    Truncate { pos: u16 },
    Delete { pos: u16, len: u8 },
    Insert { pos: u16, bytes: Vec<u8> },
    /// copy `len` bytes from `src` over `dst`
    Splice { src: u16, dst: u16, len: u8 },
    /// write a little-endian integer of `width` bytes
    Int { pos: u16, width: u8, val: u64 },
    Append(Vec<u8>),
    /// duplicate the range in place `times` times
    Repeat { pos: u16, len: u8, times: u8 },
}

#[derive(Clone, Debug, Serialize, Deserialize)]
pub struct MalCase {
    pub fmt: Fmt,
    pub tensors: Vec<(String, TensorCase)>,
    pub enc: Enc,
    pub fmuts: Vec<FMut>,
    pub bmuts: Vec<BMut>,
}

// ---------------------------------------------------------------------------
// npy document with separately mutable fields
// ---------------------------------------------------------------------------

#[derive(Clone, Debug)]
struct NpyFields {
    version: [u8; 2],
    header_len: Option<Num>,
    descr: String,
    fortran: String,
    dims: Vec<String>,
    shape_raw: Option<String>,
    extra: String,
    dict_raw: Option<String>,
    align: usize,
    data: Vec<u8>,
}

impl NpyFields {
    fn of(t: &Dense, enc: &Enc) -> NpyFields {
        NpyFields {
            version: [enc.npy_version.clamp(1, 3), 0],
            header_len: None,
            descr: refcodec::npy_descr(t.dt, enc.endian),
            fortran: if enc.fortran { "True".into() } else { "False".into() },
            dims: t.shape.iter().map(|d| d.to_string()).collect(),
            shape_raw: None,
            extra: String::new(),
            dict_raw: None,
            align: if enc.align16 { 16 } else { 64 },
            data: refcodec::npy_data(t, enc.endian == Endian::Big, enc.fortran),
        }
    }
    fn doc(&self) -> NpyDoc {
        let dict = match &self.dict_raw {
            Some(r) => r.clone(),
            None => refcodec::npy_pad(
                &format!(
                    "{{'descr': '{}', 'fortran_order': {}, 'shape': {}, {}}}",
                    self.descr,
                    self.fortran,
                    self.shape_raw.clone().unwrap_or_else(|| refcodec::npy_shape_text(&self.dims)),
                    self.extra
                ),
                self.version[0],
                self.align,
            ),
        };
        let true_len = dict.len() as u64;
        NpyDoc {
            version: self.version,
            header_len: self.header_len.as_ref().map(|n| n.apply(true_len)),
            dict,
            data: self.data.clone(),
        }
    }
    fn apply(&mut self, m: &FMut) {
        match m {
            FMut::NpyVersion { major, minor, .. } => self.version = [*major, *minor],
            FMut::NpyHeaderLen { v, .. } => self.header_len = Some(v.clone()),
            FMut::NpyDescr { s, .. } => self.descr = s.clone(),
            FMut::NpyFortran { s, .. } => self.fortran = s.clone(),
            FMut::NpyDim { idx, s, .. } => {
                let i = *idx as usize;
                if i < self.dims.len() {
                    self.dims[i] = s.clone();
                } else {
                    self.dims.push(s.clone());
                }
            }
            FMut::NpyShapeRaw { s, .. } => self.shape_raw = Some(s.clone()),
            FMut::NpyExtraKey { s, .. } => self.extra = s.clone(),
            FMut::NpyDictRaw { s, .. } => self.dict_raw = Some(s.clone()),
            FMut::NpyDataResize { delta, .. } => {
                let n = (self.data.len() as i64 + *delta as i64).max(0) as usize;
                let old = self.data.len();
                self.data.resize(n, 0xA5);
                for i in old..n {
                    self.data[i] = (i * 37 + 1) as u8;
                }
            }
            FMut::NpyFitData { .. } => {
                let dims: Option<Vec<usize>> = self.dims.iter().map(|d| d.trim().parse::<usize>().ok()).collect();
                let size = self.descr.get(2..).and_then(|s| s.parse::<usize>().ok());
                if let (Some(dims), Some(size), None) = (dims, size, &self.shape_raw) {
                    let n = dims.iter().try_fold(1usize, |a, d| a.checked_mul(*d)).and_then(|n| n.checked_mul(size));
                    if let Some(n) = n.filter(|n| *n <= 1 << 16) {
                        self.data = (0..n).map(|i| (i * 29 + 3) as u8).collect();
                    }
                }
            }
            _ => {}
        }
    }
}

fn npy_member_of(m: &FMut) -> Option<u8> {
    match m {
        FMut::NpyVersion { m, .. }
        | FMut::NpyHeaderLen { m, .. }
        | FMut::NpyDescr { m, .. }
        | FMut::NpyFortran { m, .. }
        | FMut::NpyDim { m, .. }
        | FMut::NpyShapeRaw { m, .. }
        | FMut::NpyExtraKey { m, .. }
        | FMut::NpyDictRaw { m, .. }
        | FMut::NpyDataResize { m, .. }
        | FMut::NpyFitData { m } => Some(*m),
        _ => None,
    }
}

// ---------------------------------------------------------------------------
// zip
// ---------------------------------------------------------------------------

/// (offset, width) of the fields of each record type, after the signature.
fn zip_fields(rec: ZipRec) -> (&'static [u8; 4], &'static [(usize, usize)]) {
    match rec {
        ZipRec::Local => (
            b"PK\x03\x04",
            &[(4, 2), (6, 2), (8, 2), (10, 2), (12, 2), (14, 4), (18, 4), (22, 4), (26, 2), (28, 2)],
        ),
        ZipRec::Central => (
            b"PK\x01\x02",
            &[
                (4, 2),
                (6, 2),
                (8, 2),
                (10, 2),
                (12, 2),
                (14, 2),
                (16, 4),
                (20, 4),
                (24, 4),
                (28, 2),
                (30, 2),
                (32, 2),
                (34, 2),
                (36, 2),
                (38, 4),
                (42, 4),
            ],
        ),
        ZipRec::Eocd => (b"PK\x05\x06", &[(4, 2), (6, 2), (8, 2), (10, 2), (12, 4), (16, 4), (20, 2)]),
        ZipRec::Eocd64 => (
            b"PK\x06\x06",
            &[(4, 8), (12, 2), (14, 2), (16, 4), (20, 4), (24, 8), (32, 8), (40, 8), (48, 8)],
        ),
        ZipRec::Loc64 => (b"PK\x06\x07", &[(4, 4), (8, 8), (16, 4)]),
    }
}

fn apply_zip_field(bytes: &mut [u8], rec: ZipRec, nth: u8, field: u8, v: &Num) {
    let (sig, fields) = zip_fields(rec);
    let hits: Vec<usize> = (0..bytes.len().saturating_sub(3)).filter(|&i| &bytes[i..i + 4] == sig).collect();
    if hits.is_empty() {
        return;
    }
    let at = hits[(nth as usize) % hits.len()];
    let (off, width) = fields[(field as usize) % fields.len()];
    if at + off + width > bytes.len() {
        return;
    }
    let mut cur = [0u8; 8];
    cur[..width].copy_from_slice(&bytes[at + off..at + off + width]);
    let new = v.apply(u64::from_le_bytes(cur));
    bytes[at + off..at + off + width].copy_from_slice(&new.to_le_bytes()[..width]);
}

fn zip_crate_write(members: &[(String, Vec<u8>)], how: ZipW, extras: bool) -> Vec<u8> {
    use zip::write::SimpleFileOptions;
    let mut w = zip::ZipWriter::new(std::io::Cursor::new(Vec::new()));
    let method = if how == ZipW::Deflated { zip::CompressionMethod::Deflated } else { zip::CompressionMethod::Stored };
    let opts = SimpleFileOptions::default()
        .compression_method(method)
        .last_modified_time(zip::DateTime::default())
        .large_file(how == ZipW::Stored64);
    for (name, data) in members {
        if w.start_file(name.as_str(), opts).is_ok() {
            let _ = w.write_all(data);
        }
    }
    if extras {
        if w.start_file("notes.txt", opts).is_ok() {
            let _ = w.write_all(b"not an array");
        }
        let _ = w.add_directory("sub/", opts);
        let _ = w.set_comment("archive comment");
    }
    w.finish().map(|c| c.into_inner()).unwrap_or_default()
}

// ---------------------------------------------------------------------------
// safetensors
// ---------------------------------------------------------------------------

fn apply_st(doc: &mut StDoc, m: &FMut) {
    let n = doc.entries.len();
    let pick = |e: u8| if n == 0 { None } else { Some((e as usize) % n) };
    match m {
        FMut::StHeaderLen(v) => {
            let true_len = doc.json().len() as u64;
            doc.header_len = Some(v.apply(true_len));
        }
        FMut::StDtype { e, s } => {
            if let Some(i) = pick(*e) {
                doc.entries[i].dtype = s.clone();
            }
        }
        FMut::StDim { e, idx, s } => {
            if let Some(i) = pick(*e) {
                let sh = &mut doc.entries[i].shape;
                let j = *idx as usize;
                if j < sh.len() {
                    sh[j] = s.clone();
                } else {
                    sh.push(s.clone());
                }
            }
        }
        FMut::StBegin { e, s } => {
            if let Some(i) = pick(*e) {
                doc.entries[i].begin = s.clone();
            }
        }
        FMut::StEnd { e, s } => {
            if let Some(i) = pick(*e) {
                doc.entries[i].end = s.clone();
            }
        }
        FMut::StShift { e, delta } => {
            if let Some(i) = pick(*e) {
                for f in [true, false] {
                    let field = if f { &mut doc.entries[i].begin } else { &mut doc.entries[i].end };
                    if let Ok(v) = field.parse::<i128>() {
                        *field = (v + *delta as i128).to_string();
                    }
                }
            }
        }
        FMut::StDataResize(delta) => {
            let len = (doc.data.len() as i64 + *delta as i64).max(0) as usize;
            let old = doc.data.len();
            doc.data.resize(len, 0);
            for i in old..len {
                doc.data[i] = (i * 41 + 5) as u8;
            }
        }
        FMut::StMetadata(s) => doc.metadata = Some(s.clone()),
        FMut::StJsonRaw(s) => doc.raw_json = Some(s.clone()),
        FMut::StDupEntry(e) => {
            if let Some(i) = pick(*e) {
                let d = doc.entries[i].clone();
                doc.entries.push(d);
            }
        }
        FMut::StReverse => doc.entries.reverse(),
        FMut::StFitData => {
            // lay the entries out contiguously according to their (mutated)
            // dtype and shape, when those are interpretable and small
            let mut pos = 0usize;
            let mut ok = true;
            let mut spans = Vec::new();
            for e in &doc.entries {
                let bits = st_dtype_bits(e.dtype.trim_matches('"'));
                let dims: Option<Vec<usize>> = e.shape.iter().map(|d| d.parse::<usize>().ok()).collect();
                match (bits, dims) {
                    (Some(bits), Some(dims)) => {
                        let n = dims.iter().try_fold(1usize, |a, d| a.checked_mul(*d)).and_then(|n| n.checked_mul(bits));
                        match n.filter(|n| *n <= 1 << 19 && n % 8 == 0) {
                            Some(nb) => {
                                spans.push((pos, pos + nb / 8));
                                pos += nb / 8;
                            }
                            None => ok = false,
                        }
                    }
                    _ => ok = false,
                }
            }
            if ok {
                for (e, (b, en)) in doc.entries.iter_mut().zip(spans) {
                    e.begin = b.to_string();
                    e.end = en.to_string();
                }
                doc.data = (0..pos).map(|i| (i * 13 + 7) as u8).collect();
            }
        }
        _ => {}
    }
}

/// Bit width of every dtype name the safetensors format defines.
fn st_dtype_bits(name: &str) -> Option<usize> {
    Some(match name {
        "F4" | "F4_E2M1" => 4,
        "F6_E2M3" | "F6_E3M2" => 6,
        "BOOL" | "U8" | "I8" | "F8_E5M2" | "F8_E4M3" | "F8_E8M0" | "F8_E4M3FNUZ" | "F8_E5M2FNUZ" => 8,
        "I16" | "U16" | "F16" | "BF16" => 16,
        "I32" | "U32" | "F32" => 32,
        "I64" | "U64" | "F64" | "C64" => 64,
        "C128" => 128,
        _ => return None,
    })
}

// ---------------------------------------------------------------------------
// building the file
// ---------------------------------------------------------------------------

fn apply_bmut(b: &mut Vec<u8>, m: &BMut) {
    let at = |pos: u16, len: usize| if len == 0 { 0 } else { vcore::pick_idx(pos, len) };
    match m {
        BMut::BitFlip { pos, bit } => {
            if !b.is_empty() {
                let i = at(*pos, b.len());
                b[i] ^= 1 << (bit % 8);
            }
        }
        BMut::SetByte { pos, val } => {
            if !b.is_empty() {
                let i = at(*pos, b.len());
                b[i] = *val;
            }
        }
        BMut::Truncate { pos } => {
            let i = at(*pos, b.len() + 1);
            b.truncate(i);
        }
        BMut::Delete { pos, len } => {
            if !b.is_empty() {
                let i = at(*pos, b.len());
                let e = (i + *len as usize).min(b.len());
                b.drain(i..e);
            }
        }
        BMut::Insert { pos, bytes } => {
            let i = at(*pos, b.len() + 1);
            let tail = b.split_off(i);
            b.extend_from_slice(bytes);
            b.extend_from_slice(&tail);
        }
        BMut::Splice { src, dst, len } => {
            if !b.is_empty() {
                let s = at(*src, b.len());
                let d = at(*dst, b.len());
                let n = (*len as usize).min(b.len() - s).min(b.len() - d);
                let chunk = b[s..s + n].to_vec();
                b[d..d + n].copy_from_slice(&chunk);
            }
        }
        BMut::Int { pos, width, val } => {
            let w = [1usize, 2, 4, 8][(*width as usize) % 4];
            if b.len() >= w {
                let i = at(*pos, b.len() - w + 1);
                b[i..i + w].copy_from_slice(&val.to_le_bytes()[..w]);
            }
        }
        BMut::Append(bytes) => b.extend_from_slice(bytes),
        BMut::Repeat { pos, len, times } => {
            if !b.is_empty() {
                let i = at(*pos, b.len());
                let e = (i + *len as usize).min(b.len());
                let chunk = b[i..e].to_vec();
                let tail = b.split_off(e);
                for _ in 0..(*times % 8) {
                    b.extend_from_slice(&chunk);
                }
                b.extend_from_slice(&tail);
            }
        }
    }
}

impl MalCase {
    pub fn is_pristine(&self) -> bool {
        self.fmuts.is_empty() && self.bmuts.is_empty()
    }

    /// The tensors a pristine file must decode to (sorted by name), or None
    /// when names collide (then the file is not a faithful encoding).
    pub fn expected(&self) -> Option<Vec<(String, Dense)>> {
        let mut v: Vec<(String, Dense)> = match self.fmt {
            Fmt::Npy => vec![(String::new(), self.tensors.first()?.1.model())],
            _ => self.tensors.iter().map(|(n, t)| (n.clone(), t.model())).collect(),
        };
        v.sort_by(|a, b| a.0.cmp(&b.0));
        if v.windows(2).any(|w| w[0].0 == w[1].0) {
            return None;
        }
        if self.fmt == Fmt::St && v.iter().any(|(n, _)| n == "__metadata__") {
            return None;
        }
        // zip member names: "<name>.npy"; the reader strips one suffix
        Some(v)
    }

    pub fn build(&self) -> Vec<u8> {
        let mut bytes = match self.fmt {
            Fmt::Npy => {
                let t = self.tensors.first().map(|t| t.1.model()).unwrap_or(Dense { dt: DT::U8, shape: vec![0], bits: vec![] });
                let mut f = NpyFields::of(&t, &self.enc);
                for m in &self.fmuts {
                    f.apply(m);
                }
                f.doc().to_bytes()
            }
            Fmt::Npz => {
                let mut members: Vec<(String, Vec<u8>)> = Vec::new();
                for (i, (name, t)) in self.tensors.iter().enumerate() {
                    let mut f = NpyFields::of(&t.model(), &self.enc);
                    for m in &self.fmuts {
                        if let Some(k) = npy_member_of(m) {
                            if (k as usize) % self.tensors.len() == i {
                                f.apply(m);
                            }
                        }
                    }
                    members.push((format!("{name}.npy"), f.doc().to_bytes()));
                }
                let mut b = match self.enc.zip {
                    ZipW::Reference | ZipW::Reference64 => {
                        let ms: Vec<(Vec<u8>, Vec<u8>)> = members.iter().map(|(n, d)| (n.as_bytes().to_vec(), d.clone())).collect();
                        refcodec::zip_write(&ms, self.enc.zip == ZipW::Reference64)
                    }
                    how => zip_crate_write(&members, how, self.enc.zip_extras),
                };
                for m in &self.fmuts {
                    if let FMut::ZipField { rec, nth, field, v } = m {
                        apply_zip_field(&mut b, *rec, *nth, *field, v);
                    }
                }
                b
            }
            Fmt::St => {
                let ts: Vec<(String, Dense)> = self.tensors.iter().map(|(n, t)| (n.clone(), t.model())).collect();
                let mut doc = refcodec::st_encode(&ts, (self.enc.st_pad % 9) as usize);
                for m in &self.fmuts {
                    apply_st(&mut doc, m);
                }
                doc.to_bytes()
            }
        };
        for m in &self.bmuts {
            apply_bmut(&mut bytes, m);
        }
        bytes
    }
}

// ---------------------------------------------------------------------------
// strategies
// ---------------------------------------------------------------------------

const NUM_TEXT: [&str; 30] = [
    "0",
    "1",
    "2",
    "3",
    "7",
    "8",
    "255",
    "256",
    "65535",
    "65536",
    "1048576",
    "2147483647",
    "2147483648",
    "4294967295",
    "4294967296",
    "1099511627776",
    "4611686018427387904",
    "9223372036854775807",
    "9223372036854775808",
    "18446744073709551615",
    "18446744073709551616",
    "99999999999999999999999999",
    "-1",
    "1.5",
    "1e3",
    "",
    " 2 ",
    "x",
    "0x10",
    "٣",
];

fn num_text() -> impl Strategy<Value = String> {
    prop_oneof![
        4 => (0..NUM_TEXT.len()).prop_map(|i| NUM_TEXT[i].to_string()),
        2 => (0u32..40).prop_map(|v| v.to_string()),
        1 => any::<u64>().prop_map(|v| v.to_string()),
    ]
}

const NUM_ABS: [u64; 18] = [
    0,
    1,
    2,
    0x7f,
    0xff,
    0x100,
    0x7fff,
    0xffff,
    0x1_0000,
    0x7fff_ffff,
    0x8000_0000,
    0xffff_fffe,
    0xffff_ffff,
    0x1_0000_0000,
    0x7fff_ffff_ffff_ffff,
    0x8000_0000_0000_0000,
    0xffff_ffff_ffff_fffe,
    0xffff_ffff_ffff_ffff,
];

fn num() -> impl Strategy<Value = Num> {
    prop_oneof![
        3 => (0..NUM_ABS.len()).prop_map(|i| Num::Abs(NUM_ABS[i])),
        3 => (-70i32..=70).prop_map(Num::Delta),
        1 => (0u64..600).prop_map(Num::Abs),
        1 => any::<u64>().prop_map(Num::Abs),
    ]
}

const DESCRS: [&str; 40] = [
    "<i4", ">i4", "=i4", "|i4", "<f8", ">f8", ">f4", ">u2", ">i8", ">u8", "|b1", ">b1", "<b1", "|u1", ">i1", "=u1", "<i3", "<f2", "<f16",
    "<c8", "|S5", "<U3", "|O", "<M8[ns]", "<i", "<", "", "i4", "<i0", "<b2", "<i99999999999999999999", "<i18446744073709551615", "<é4",
    "é", "<ié", "<i4 ", "<I4", "?", "<i+4", "<u04",
];

const FORTRANS: [&str; 10] = ["False", "True", "false", "true", "Maybe", "0", "1", "Tru", "TrueFalse", "None"];

const EXTRA_KEYS: [&str; 8] = [
    "'extra': 1, ",
    "'descr': '<u1', ",
    "'shape': (1,), ",
    "'fortran_order': True, ",
    "'': '', ",
    "}, {",
    "'a': 'b'",
    "\"descr\": \"<i4\", ",
];

const SHAPES_RAW: [&str; 18] = [
    "()",
    "(,)",
    "(2)",
    "(2,,3)",
    "(2 3)",
    "2, 3",
    "(2, 3",
    "[2, 3]",
    "(2, 3))",
    "((2, 3))",
    "(-1,)",
    "(2L,)",
    "(0, 18446744073709551615, 18446744073709551615)",
    "(18446744073709551615, 0)",
    "(4294967296, 4294967296)",
    "(65536, 65536, 65536, 65536)",
    "(4294967295,)",
    "(1,1,1,1,1,1,1,1,1,1,1,1,1,1,1,1,1,1,1,1,1,1,1,1,1,1,1,1,1,1,1,1,1,1,1,1,1,1,1,1)",
];

const DICTS_RAW: [&str; 10] = [
    "",
    "{",
    "{}",
    "{'descr': '<i4', 'fortran_order': False, 'shape': (1,)",
    "{'descr': '<i4', 'fortran_order': False, 'shape': (1,)}{",
    "{'descr': '<i4' 'fortran_order': False 'shape': (1,)}\n",
    "{'descr': '<i4', 'fortran_order': False, 'shape': (1,), }",
    "  \n\t{'descr':'<i4','fortran_order':False,'shape':(1,)}\n",
    "{'descr': '<i4', 'fortran_order': ",
    "{'shape': (1,), 'fortran_order': False, 'descr': '<i4'}\n",
];

const ST_DTYPES: [&str; 32] = [
    "\"F32\"", "\"F64\"", "\"I8\"", "\"U8\"", "\"BOOL\"", "\"I16\"", "\"U16\"", "\"I32\"", "\"U32\"", "\"I64\"", "\"U64\"", "\"F16\"",
    "\"BF16\"", "\"F8_E5M2\"", "\"F8_E4M3\"", "\"F8_E8M0\"", "\"F6_E2M3\"", "\"F6_E3M2\"", "\"F4\"", "\"C64\"", "\"E8M0\"", "\"f32\"",
    "\"\"", "\"F128\"", "32", "null", "[\"F32\"]", "\"F32", "\"I4\"", "\"U4\"", "\"F4_E2M1\"", "\"F8_E4M3FNUZ\"",
];

const ST_META: [&str; 8] = ["{}", "{\"k\":\"v\"}", "{\"k\":1}", "null", "[]", "\"x\"", "{\"k\":{\"dtype\":\"F32\",\"shape\":[],\"data_offsets\":[0,4]}}", "{\"a\":\"b\",\"a\":\"c\"}"];

const ST_JSON: [&str; 12] = [
    "",
    "{",
    "{}",
    "[]",
    "null",
    "{\"a\":1}",
    "{\"a\":{}}",
    "{\"a\":{\"dtype\":\"F32\",\"shape\":[1],\"data_offsets\":[0]}}",
    "{\"a\":{\"dtype\":\"F32\",\"shape\":[1],\"data_offsets\":[0,4,8]}}",
    "{\"a\":{\"dtype\":\"F32\",\"shape\":1,\"data_offsets\":[0,4]}}",
    " {\"a\":{\"dtype\":\"U8\",\"shape\":[0],\"data_offsets\":[0,0]}}",
    "{\"a\":{\"dtype\":\"U8\",\"shape\":[0],\"data_offsets\":[0,0]},\"b\":{\"dtype\":\"U8\",\"shape\":[0],\"data_offsets\":[0,0]}}",
];

fn pool(items: &'static [&'static str]) -> impl Strategy<Value = String> {
    (0..items.len()).prop_map(move |i| items[i].to_string())
}

fn npy_fmut() -> impl Strategy<Value = FMut> {
    let m = 0u8..4;
    prop_oneof![
        2 => (m.clone(), prop_oneof![Just(0u8), Just(1), Just(2), Just(3), Just(4), Just(255)], prop_oneof![4 => Just(0u8), 1 => any::<u8>()])
            .prop_map(|(m, major, minor)| FMut::NpyVersion { m, major, minor }),
        4 => (m.clone(), num()).prop_map(|(m, v)| FMut::NpyHeaderLen { m, v }),
        4 => (m.clone(), pool(&DESCRS)).prop_map(|(m, s)| FMut::NpyDescr { m, s }),
        3 => (m.clone(), pool(&FORTRANS)).prop_map(|(m, s)| FMut::NpyFortran { m, s }),
        6 => (m.clone(), 0u8..6, num_text()).prop_map(|(m, idx, s)| FMut::NpyDim { m, idx, s }),
        3 => (m.clone(), pool(&SHAPES_RAW)).prop_map(|(m, s)| FMut::NpyShapeRaw { m, s }),
        2 => (m.clone(), pool(&EXTRA_KEYS)).prop_map(|(m, s)| FMut::NpyExtraKey { m, s }),
        2 => (m.clone(), pool(&DICTS_RAW)).prop_map(|(m, s)| FMut::NpyDictRaw { m, s }),
        3 => (m.clone(), -40i16..200).prop_map(|(m, delta)| FMut::NpyDataResize { m, delta }),
        4 => m.prop_map(|m| FMut::NpyFitData { m }),
    ]
}

fn zip_fmut() -> impl Strategy<Value = FMut> {
    (
        prop_oneof![
            3 => Just(ZipRec::Local),
            4 => Just(ZipRec::Central),
            4 => Just(ZipRec::Eocd),
            3 => Just(ZipRec::Eocd64),
            2 => Just(ZipRec::Loc64),
        ],
        0u8..4,
        0u8..16,
        num(),
    )
        .prop_map(|(rec, nth, field, v)| FMut::ZipField { rec, nth, field, v })
}

fn st_fmut() -> impl Strategy<Value = FMut> {
    let e = 0u8..4;
    prop_oneof![
        4 => num().prop_map(FMut::StHeaderLen),
        4 => (e.clone(), pool(&ST_DTYPES)).prop_map(|(e, s)| FMut::StDtype { e, s }),
        5 => (e.clone(), 0u8..5, num_text()).prop_map(|(e, idx, s)| FMut::StDim { e, idx, s }),
        4 => (e.clone(), num_text()).prop_map(|(e, s)| FMut::StBegin { e, s }),
        4 => (e.clone(), num_text()).prop_map(|(e, s)| FMut::StEnd { e, s }),
        3 => (e.clone(), -9i16..=9).prop_map(|(e, delta)| FMut::StShift { e, delta }),
        3 => (-40i16..100).prop_map(FMut::StDataResize),
        2 => pool(&ST_META).prop_map(FMut::StMetadata),
        2 => pool(&ST_JSON).prop_map(FMut::StJsonRaw),
        2 => e.prop_map(FMut::StDupEntry),
        1 => Just(FMut::StReverse),
        4 => Just(FMut::StFitData),
    ]
}

fn bmut() -> impl Strategy<Value = BMut> {
    let small = proptest::collection::vec(any::<u8>(), 0..8);
    prop_oneof![
        4 => (any::<u16>(), 0u8..8).prop_map(|(pos, bit)| BMut::BitFlip { pos, bit }),
        3 => (any::<u16>(), any::<u8>()).prop_map(|(pos, val)| BMut::SetByte { pos, val }),
        3 => any::<u16>().prop_map(|pos| BMut::Truncate { pos }),
        2 => (any::<u16>(), 1u8..40).prop_map(|(pos, len)| BMut::Delete { pos, len }),
        2 => (any::<u16>(), small.clone()).prop_map(|(pos, bytes)| BMut::Insert { pos, bytes }),
        2 => (any::<u16>(), any::<u16>(), 1u8..40).prop_map(|(src, dst, len)| BMut::Splice { src, dst, len }),
        3 => (any::<u16>(), 0u8..4, (0..NUM_ABS.len())).prop_map(|(pos, width, i)| BMut::Int { pos, width, val: NUM_ABS[i] }),
        1 => small.prop_map(BMut::Append),
        1 => (any::<u16>(), 1u8..40, 1u8..8).prop_map(|(pos, len, times)| BMut::Repeat { pos, len, times }),
    ]
}

pub const NAMES: [&str; 24] = [
    "a",
    "b",
    "weight",
    "layer.0/bias",
    "nested/dir/x",
    "é",
    "日本語/テンソル",
    "😀",
    "a b",
    "a.npy",
    "x.npy.npy",
    ".npy",
    "",
    "/abs",
    "../up",
    "a//b",
    "dir/",
    "a\\b",
    "a\u{0}b",
    "__metadata__",
    "a\"quote",
    "\u{feff}bom",
    "e\u{301}",
    "A",
];

pub fn name_strategy() -> impl Strategy<Value = String> {
    prop_oneof![
        6 => pool(&NAMES),
        1 => "[a-c]{1,2}",
        1 => "\\PC{0,6}",
    ]
}

fn enc() -> impl Strategy<Value = Enc> {
    (
        1u8..=3,
        prop_oneof![3 => Just(Endian::Little), 2 => Just(Endian::Big), 1 => Just(Endian::Native), 1 => Just(Endian::LittleExplicit)],
        any::<bool>(),
        any::<bool>(),
        0u8..9,
        prop_oneof![2 => Just(ZipW::Reference), 2 => Just(ZipW::Reference64), 2 => Just(ZipW::Stored), 2 => Just(ZipW::Deflated), 1 => Just(ZipW::Stored64)],
        any::<bool>(),
    )
        .prop_map(|(npy_version, endian, fortran, align16, st_pad, zip, zip_extras)| Enc {
            npy_version,
            endian,
            fortran,
            align16,
            st_pad,
            zip,
            zip_extras,
        })
}

/// Names that the reference encoders can represent faithfully as archive
/// member / JSON key for a *pristine* file.
fn simple_name() -> impl Strategy<Value = String> {
    prop_oneof![3 => pool(&["a", "b", "w/x", "é", "日本", "n.0"]), 1 => "[a-d]{1,3}"]
}

pub fn mal_case(fmt: Fmt) -> impl Strategy<Value = MalCase> {
    let n_tensors = if fmt == Fmt::Npy { 1..=1usize } else { 0..=3usize };
    let fm = match fmt {
        Fmt::Npy => npy_fmut().boxed(),
        Fmt::Npz => prop_oneof![3 => npy_fmut(), 4 => zip_fmut()].boxed(),
        Fmt::St => st_fmut().boxed(),
    };
    (
        proptest::collection::vec((simple_name(), small_tensor_case()), n_tensors),
        enc(),
        proptest::collection::vec(fm, 1..=3),
        proptest::collection::vec(bmut(), 1..=3),
        0u8..16,
    )
        .prop_map(move |(mut tensors, enc, mut fmuts, mut bmuts, mode)| {
            // unique names (a pristine archive must be a faithful encoding)
            let mut seen = std::collections::BTreeSet::new();
            tensors.retain(|(n, _)| seen.insert(n.clone()));
            match mode {
                0 => {
                    fmuts.clear();
                    bmuts.clear();
                }
                1..=8 => bmuts.clear(),
                9..=11 => fmuts.clear(),
                _ => {}
            }
            MalCase { fmt, tensors, enc, fmuts, bmuts }
        })
}

//! C34 — tensor file formats round-trip and reject malformed files.
//!
//! (a) Round trip. A tensor case is (dtype, base shape, element bit patterns,
//! view recipe). The expected logical content comes from a strided-layout
//! model that shares nothing with rten. The (possibly non-contiguous) rten
//! view is written with npy / npz / safetensors; the bytes are decoded by an
//! independent reference decoder (writer oracle) and by rten's reader (round
//! trip oracle); both must give the model's dtype, shape and element bits.
//! Files produced by an independent NumPy-conformant encoder (format versions
//! 1-3, big-endian, Fortran order) must decode to the model as well.
//!
//! (b) Malformed input. Reference-encoded files are perturbed field by field
//! (lengths, descr, shape digits, zip record fields, JSON offsets) and byte by
//! byte. Reading must return Ok or Err: no panic (ship and checked flavours),
//! no signal, a bounded number of I/O calls, and no single allocation request
//! above 64*len + 1 MiB. Accepted values must survive write -> read.

use proptest::prelude::*;
use serde::{Deserialize, Serialize};
use std::path::{Path, PathBuf};
use vc_serialize::alloc::CountingAlloc;
use vc_serialize::entry::{check_read, describe_all, write_npy, write_npz, write_st, Fmt, Violation};
use vc_serialize::model::{dense_of_view, tensor_case, view_is_contiguous, view_of, Dense, TensorCase, DT};
use vc_serialize::mutate::{self, mal_case, MalCase};
use vc_serialize::refcodec::{self, Endian};
use vcore::{Check, Tier, Verdict};

#[global_allocator]
static GLOBAL: CountingAlloc = CountingAlloc;

fn fail(v: Violation) -> Verdict {
    Verdict::fail(v.sig, v.detail)
}

const RANK_LABEL: [&str; 6] = ["rank:0", "rank:1", "rank:2", "rank:3", "rank:4", "rank:5"];

fn tensor_labels(tc: &TensorCase, m: &Dense, contiguous: bool, labels: &mut Vec<&'static str>) {
    labels.push(tc.dt.label());
    labels.push(RANK_LABEL[m.shape.len().min(5)]);
    if m.shape.is_empty() {
        labels.push("shape:0-d");
    }
    if m.shape.contains(&0) {
        labels.push("shape:has-zero-dim");
    }
    if !contiguous {
        labels.push("layout:non-contiguous");
    }
    let (_, lay) = tc.resolve();
    if lay.strides.iter().zip(&lay.shape).any(|(s, d)| *s == 0 && *d > 1) {
        labels.push("layout:broadcast-stride0");
    }
    if lay.offset > 0 {
        labels.push("layout:offset");
    }
}

/// Build the rten view of a tensor case and make sure harness model and rten
/// agree on what the view contains before it is handed to a writer.
fn with_view<R>(tc: &TensorCase, f: impl FnOnce(rten_serialize::View, &Dense, bool) -> R) -> Result<R, Verdict> {
    let m = tc.model();
    let base = tc.base_value();
    let (rops, lay) = tc.resolve();
    let view = view_of(&base, &rops);
    let seen = dense_of_view(&view);
    if seen != m {
        return Err(Verdict::fail(
            "harness-model:view-differs",
            format!("model {} vs rten view {} for {tc:?}", m.describe(), seen.describe()),
        ));
    }
    let contiguous = view_is_contiguous(&view);
    if contiguous != lay.is_contiguous() && m.bits.len() > 1 {
        // informational only: rten decides which path its writers take
    }
    Ok(f(view, &m, contiguous))
}

fn interesting(m: &Dense) -> bool {
    m.bits.len() >= 2 || m.shape.is_empty() || m.shape.contains(&0)
}

// ---------------------------------------------------------------------------
// (a) npy round trip
// ---------------------------------------------------------------------------

fn roundtrip_npy(tc: &TensorCase) -> Verdict {
    let mut labels = Vec::new();
    let r = with_view(tc, |view, m, contiguous| {
        tensor_labels(tc, m, contiguous, &mut labels);
        let bytes = match write_npy(view) {
            Err(v) => return Some(fail(v)),
            Ok(Err(e)) => return Some(Verdict::fail("npy-write:err", format!("npy::write failed for {}: {e}", m.describe()))),
            Ok(Ok(b)) => b,
        };
        // writer oracle: an independent strict decoder
        match refcodec::npy_decode(&bytes) {
            Err(e) => return Some(Verdict::fail("npy-write:not-conformant", format!("reference decoder rejects the written file: {e}; expected {}", m.describe()))),
            Ok(d) => {
                if let Some(diff) = d.diff(m) {
                    return Some(Verdict::fail(
                        format!("npy-write:refdecode:{}", d.diff_class(m)),
                        format!("written file decodes (reference decoder) to {} but the tensor is {}: {diff}", d.describe(), m.describe()),
                    ));
                }
            }
        }
        if (bytes.len() - m.bits.len() * m.dt.size()) % 64 == 0 {
            labels.push("npy:header-64-aligned");
        }
        // round trip
        match check_read(Fmt::Npy, &bytes) {
            Err(v) => Some(fail(v)),
            Ok(out) => match out.values {
                Err(e) => Some(Verdict::fail("roundtrip:npy:read-err", format!("npy::read rejects npy::write output: {e}; tensor {}", m.describe()))),
                Ok(vs) => vs[0].1.diff(m).map(|diff| {
                    Verdict::fail(
                        format!("roundtrip:npy:{}", vs[0].1.diff_class(m)),
                        format!("read(write(t)) = {} but t = {}: {diff}", vs[0].1.describe(), m.describe()),
                    )
                }),
            },
        }
    });
    match r {
        Err(v) => v,
        Ok(Some(v)) => v,
        Ok(None) => Verdict::pass_l(interesting(&tc.model()), labels),
    }
}

// ---------------------------------------------------------------------------
// (a) files written by a NumPy-conformant encoder
// ---------------------------------------------------------------------------

#[derive(Clone, Debug, Serialize, Deserialize)]
struct ForeignCase {
    tensor: TensorCase,
    version: u8,
    endian: Endian,
    fortran: bool,
    align16: bool,
}

fn foreign_npy(c: &ForeignCase) -> Verdict {
    let m = c.tensor.model();
    let doc = refcodec::npy_encode(&m, c.version.clamp(1, 3), c.endian, c.fortran, if c.align16 { 16 } else { 64 });
    let bytes = doc.to_bytes();
    // self-check of the reference codec
    match refcodec::npy_decode(&bytes) {
        Ok(d) if d == m => {}
        other => return Verdict::fail("harness-refcodec:npy", format!("reference encoder/decoder disagree: {other:?}")),
    }
    let mut labels = vec![c.tensor.dt.label(), RANK_LABEL[m.shape.len().min(5)]];
    labels.push(match c.endian {
        Endian::Big => "npy:big-endian",
        Endian::Native => "npy:native-endian",
        _ => "npy:little-endian",
    });
    labels.push(if c.fortran { "npy:fortran-order" } else { "npy:c-order" });
    labels.push(["", "npy:v1", "npy:v2", "npy:v3"][c.version.clamp(1, 3) as usize]);
    match check_read(Fmt::Npy, &bytes) {
        Err(v) => fail(v),
        Ok(out) => match out.values {
            Err(e) => Verdict::fail(
                format!("foreign-npy:read-err:{}", vc_serialize::entry::msg_class(&e)),
                format!("npy::read rejects a conformant file ({:?}): {e}", doc.dict.trim_end()),
            ),
            Ok(vs) => match vs[0].1.diff(&m) {
                Some(diff) => Verdict::fail(
                    format!(
                        "foreign-npy:{}:{}{}",
                        vs[0].1.diff_class(&m),
                        if c.fortran { "fortran" } else { "c" },
                        if c.endian == Endian::Big { "-big-endian" } else { "" }
                    ),
                    format!("header {:?}: read gives {} expected {}: {diff}", doc.dict.trim_end(), vs[0].1.describe(), m.describe()),
                ),
                None => Verdict::pass_l(interesting(&m), labels),
            },
        },
    }
}

// ---------------------------------------------------------------------------
// (a) archives
// ---------------------------------------------------------------------------

#[derive(Clone, Debug, Serialize, Deserialize)]
struct ArchiveCase {
    entries: Vec<(String, TensorCase)>,
}

fn name_labels(names: &[String], labels: &mut Vec<&'static str>) {
    if names.is_empty() {
        labels.push("archive:empty");
    }
    if names.len() >= 2 {
        labels.push("archive:multi");
    }
    for n in names {
        if n.is_empty() {
            labels.push("name:empty");
        }
        if !n.is_ascii() {
            labels.push("name:unicode");
        }
        if n.contains('/') {
            labels.push("name:slash");
        }
        if n.ends_with(".npy") {
            labels.push("name:npy-suffix");
        }
    }
    labels.sort();
    labels.dedup();
}

/// What the archive must contain when read back: (name, tensor) sorted by
/// name; `None` when the requested names cannot all be represented.
fn archive_expectation(fmt: Fmt, c: &ArchiveCase) -> (Option<Vec<(String, Dense)>>, &'static str) {
    let key_of = |name: &String| match fmt {
        // documented: names may carry the .npy suffix; returned names have it removed
        Fmt::Npz => name.strip_suffix(".npy").unwrap_or(name).to_string(),
        _ => name.clone(),
    };
    let keys: Vec<String> = c.entries.iter().map(|e| key_of(&e.0)).collect();
    if (0..keys.len()).any(|i| keys[..i].contains(&keys[i])) {
        return (None, "duplicate-names");
    }
    if fmt == Fmt::Npz && keys.iter().any(|k| k.is_empty()) {
        return (None, "empty-name");
    }
    if fmt == Fmt::St && keys.iter().any(|k| k == "__metadata__") {
        return (None, "reserved-name");
    }
    let mut out: Vec<(String, Dense)> = keys.into_iter().zip(c.entries.iter().map(|e| e.1.model())).collect();
    out.sort_by(|a, b| a.0.cmp(&b.0));
    (Some(out), "")
}

fn roundtrip_archive(fmt: Fmt, c: &ArchiveCase) -> Verdict {
    let mut labels: Vec<&'static str> = Vec::new();
    let names: Vec<String> = c.entries.iter().map(|e| e.0.clone()).collect();
    name_labels(&names, &mut labels);
    // check models against rten views first, then build all views
    let bases: Vec<_> = c.entries.iter().map(|(_, tc)| tc.base_value()).collect();
    let mut views = Vec::new();
    let mut any_noncontig = false;
    for ((name, tc), base) in c.entries.iter().zip(&bases) {
        let (rops, _) = tc.resolve();
        let view = view_of(base, &rops);
        let m = tc.model();
        let seen = dense_of_view(&view);
        if seen != m {
            return Verdict::fail("harness-model:view-differs", format!("model {} vs rten view {}", m.describe(), seen.describe()));
        }
        any_noncontig |= !view_is_contiguous(&view);
        labels.push(tc.dt.label());
        views.push((name.clone(), view));
    }
    if any_noncontig {
        labels.push("layout:non-contiguous");
    }
    let (expect, why_not) = archive_expectation(fmt, c);
    let written = match if fmt == Fmt::Npz { write_npz(views) } else { write_st(views) } {
        Err(v) => {
            // a panic; name the unrepresentable-name class in the signature
            return Verdict::fail(
                if expect.is_none() { format!("{}[{why_not}]", v.sig) } else { v.sig },
                format!("names {names:?}: {}", v.detail),
            );
        }
        Ok(w) => w,
    };
    let Some(expect) = expect else {
        labels.push("archive:unrepresentable-names");
        return match written {
            Err(_) => Verdict::pass_l(true, labels),
            Ok(bytes) => {
                // The writer accepted names that cannot all be stored. That is
                // only acceptable if nothing is lost silently: reading must
                // fail loudly -- and a file the library itself cannot read is
                // a broken round trip.
                let r = check_read(fmt, &bytes);
                Verdict::fail(
                    format!("roundtrip:{}:accepted-{why_not}", fmt.name()),
                    format!(
                        "write accepted names {names:?} ({why_not}); reading the result gives {}",
                        match r {
                            Ok(o) => match o.values {
                                Ok(v) => format!("Ok with {} entries: {}", v.len(), describe_all(&v)),
                                Err(e) => format!("Err({e})"),
                            },
                            Err(v) => format!("violation {}", v.sig),
                        }
                    ),
                )
            }
        };
    };
    let bytes = match written {
        Err(e) => return Verdict::fail(format!("{}-write:err", fmt.name()), format!("write failed for names {names:?}: {e}")),
        Ok(b) => b,
    };
    // writer oracle
    let decoded: Result<Vec<(String, Dense)>, String> = match fmt {
        Fmt::Npz => refcodec::zip_members(&bytes).and_then(|ms| {
            ms.into_iter()
                .map(|m| {
                    let name = String::from_utf8(m.name).map_err(|_| "member name is not UTF-8".to_string())?;
                    if !name.is_ascii() && !m.utf8_flag {
                        return Err(format!("member {name:?} is not ASCII but the UTF-8 flag is not set"));
                    }
                    let key = name.strip_suffix(".npy").ok_or(format!("member {name:?} lacks .npy"))?.to_string();
                    Ok((key, refcodec::npy_decode(&m.data)?))
                })
                .collect()
        }),
        _ => refcodec::st_decode(&bytes),
    };
    match decoded {
        Err(e) => return Verdict::fail(format!("{}-write:not-conformant", fmt.name()), format!("reference decoder rejects the written archive: {e} (names {names:?})")),
        Ok(mut d) => {
            d.sort_by(|a, b| a.0.cmp(&b.0));
            if d != expect {
                return Verdict::fail(
                    format!("{}-write:refdecode", fmt.name()),
                    format!("written archive decodes (reference) to {} expected {}", describe_all(&d), describe_all(&expect)),
                );
            }
        }
    }
    match check_read(fmt, &bytes) {
        Err(v) => fail(v),
        Ok(out) => match out.values {
            Err(e) => Verdict::fail(format!("roundtrip:{}:read-err", fmt.name()), format!("read rejects write output: {e}; names {names:?}")),
            Ok(vs) => {
                if vs != expect {
                    let class = if vs.iter().map(|v| &v.0).ne(expect.iter().map(|v| &v.0)) {
                        "names"
                    } else {
                        vs.iter().zip(&expect).find(|(a, b)| a.1 != b.1).map(|(a, b)| a.1.diff_class(&b.1)).unwrap_or("?")
                    };
                    Verdict::fail(
                        format!("roundtrip:{}:{class}", fmt.name()),
                        format!("read(write(..)) = {} expected {}", describe_all(&vs), describe_all(&expect)),
                    )
                } else {
                    Verdict::pass_l(!expect.is_empty(), labels)
                }
            }
        },
    }
}

fn archive_case() -> impl Strategy<Value = ArchiveCase> {
    proptest::collection::vec((mutate::name_strategy(), tensor_case(3)), 0..=4).prop_map(|entries| ArchiveCase { entries })
}

// ---------------------------------------------------------------------------
// (b) malformed
// ---------------------------------------------------------------------------

fn mut_label(m: &mutate::FMut) -> &'static str {
    use mutate::FMut::*;
    match m {
        NpyVersion { .. } => "mut:npy-version",
        NpyHeaderLen { .. } => "mut:npy-header-len",
        NpyDescr { .. } => "mut:npy-descr",
        NpyFortran { .. } => "mut:npy-fortran",
        NpyDim { .. } | NpyShapeRaw { .. } => "mut:npy-shape",
        NpyExtraKey { .. } | NpyDictRaw { .. } => "mut:npy-dict",
        NpyDataResize { .. } | NpyFitData { .. } => "mut:npy-data",
        ZipField { rec, .. } => match rec {
            mutate::ZipRec::Local => "mut:zip-local-header",
            mutate::ZipRec::Central => "mut:zip-central-header",
            mutate::ZipRec::Eocd => "mut:zip-eocd",
            _ => "mut:zip-zip64-records",
        },
        StHeaderLen(_) => "mut:st-header-len",
        StDtype { .. } => "mut:st-dtype",
        StDim { .. } => "mut:st-shape",
        StBegin { .. } | StEnd { .. } | StShift { .. } => "mut:st-offsets",
        StDataResize(_) | StFitData => "mut:st-data",
        StMetadata(_) | StJsonRaw(_) | StDupEntry(_) | StReverse => "mut:st-json",
    }
}

fn malformed(c: &MalCase) -> Verdict {
    let bytes = c.build();
    let mut labels: Vec<&'static str> = c.fmuts.iter().map(mut_label).collect();
    if !c.bmuts.is_empty() {
        labels.push("mut:bytes");
    }
    let out = match check_read(c.fmt, &bytes) {
        Err(v) => return fail(v),
        Ok(o) => o,
    };
    labels.push(if out.values.is_ok() { "read:ok" } else { "read:err" });
    if out.max_alloc > bytes.len() + 4096 {
        labels.push("alloc:above-file-size");
    }
    if c.is_pristine() {
        labels.push("pristine-reference-file");
        if let Some(expect) = c.expected() {
            match &out.values {
                Err(e) => {
                    return Verdict::fail(
                        format!("foreign-{}:read-err:{}", c.fmt.name(), vc_serialize::entry::msg_class(e)),
                        format!("read rejects a conformant reference-encoded file: {e} (enc {:?})", c.enc),
                    )
                }
                Ok(vs) => {
                    if *vs != expect {
                        return Verdict::fail(
                            format!("foreign-{}:differs", c.fmt.name()),
                            format!("reference-encoded file (enc {:?}) reads as {} expected {}", c.enc, describe_all(vs), describe_all(&expect)),
                        );
                    }
                }
            }
        }
        return Verdict::pass_l(false, labels);
    }
    if out.values.is_ok() {
        labels.push("read:ok-after-mutation");
    }
    labels.sort();
    labels.dedup();
    Verdict::pass_l(true, labels)
}

#[derive(Clone, Debug, Serialize, Deserialize)]
struct RawCase {
    fmt: Fmt,
    hex: String,
}

fn unhex(s: &str) -> Vec<u8> {
    (0..s.len() / 2).filter_map(|i| u8::from_str_radix(&s[2 * i..2 * i + 2], 16).ok()).collect()
}
fn hex(b: &[u8]) -> String {
    b.iter().map(|x| format!("{x:02x}")).collect()
}

fn raw(c: &RawCase) -> Verdict {
    match check_read(c.fmt, &unhex(&c.hex)) {
        Err(v) => fail(v),
        Ok(o) => Verdict::pass_l(true, vec![if o.values.is_ok() { "read:ok" } else { "read:err" }]),
    }
}

// ---------------------------------------------------------------------------
// seed corpus (committed under /verif/corpus/<target>/)
// ---------------------------------------------------------------------------

const TARGETS: [(Fmt, &'static str); 3] = [(Fmt::Npy, "npy_read"), (Fmt::Npz, "npz_read"), (Fmt::St, "safetensors_read")];

fn corpus_files() -> Vec<(Fmt, String, Vec<u8>)> {
    let t = |dt: DT, shape: &[usize], vals: &[u64]| TensorCase { dt, base_shape: shape.to_vec(), vals: vals.to_vec(), ops: vec![] };
    let tensors = [
        t(DT::F32, &[2, 3], &[0x3f80_0000, 0x7fc0_0000, 0x8000_0000]),
        t(DT::I64, &[3], &[1, u64::MAX, 0x0102_0304_0506_0708]),
        t(DT::Bool, &[2, 2], &[1, 0, 1]),
        t(DT::U8, &[0, 2], &[0]),
        t(DT::F64, &[], &[0x3ff0_0000_0000_0000]),
        t(DT::I16, &[2, 1, 2], &[0x8000, 0x7fff]),
        t(DT::U32, &[4], &[0xffff_ffff, 7]),
    ];
    let mut out = Vec::new();
    for (i, tc) in tensors.iter().enumerate() {
        let m = tc.model();
        let (ver, e, f) = [(1, Endian::Little, false), (2, Endian::Big, true), (3, Endian::Native, false)][i % 3];
        out.push((Fmt::Npy, format!("ref-{i}.npy"), refcodec::npy_encode(&m, ver, e, f, 64).to_bytes()));
        let base = tc.base_value();
        if let Ok(Ok(b)) = write_npy(view_of(&base, &[])) {
            out.push((Fmt::Npy, format!("rten-{i}.npy"), b));
        }
    }
    let names = ["a", "nested/b", "é"];
    for n in 0..=3usize {
        let pick: Vec<(String, TensorCase)> = (0..n).map(|k| (names[k].to_string(), tensors[(n + 2 * k) % tensors.len()].clone())).collect();
        let bases: Vec<_> = pick.iter().map(|p| p.1.base_value()).collect();
        let views = || -> Vec<_> { pick.iter().zip(&bases).map(|(p, b)| (p.0.clone(), view_of(b, &[]))).collect() };
        if let Ok(Ok(b)) = write_npz(views()) {
            out.push((Fmt::Npz, format!("rten-{n}.npz"), b));
        }
        if let Ok(Ok(b)) = write_st(views()) {
            out.push((Fmt::St, format!("rten-{n}.safetensors"), b));
        }
        let dense: Vec<(String, Dense)> = pick.iter().map(|p| (p.0.clone(), p.1.model())).collect();
        out.push((Fmt::St, format!("ref-{n}.safetensors"), refcodec::st_encode(&dense, n).to_bytes()));
        for (zi, how) in [mutate::ZipW::Reference64, mutate::ZipW::Deflated, mutate::ZipW::Stored64].into_iter().enumerate() {
            if n == 0 && zi > 0 {
                continue; // empty archives: the three writers coincide
            }
            let c = MalCase {
                fmt: Fmt::Npz,
                tensors: pick.clone(),
                enc: mutate::Enc { npy_version: 1 + (n as u8 % 3), endian: Endian::Little, fortran: n == 2, align16: false, st_pad: 0, zip: how, zip_extras: n == 3 },
                fmuts: vec![],
                bmuts: vec![],
            };
            out.push((Fmt::Npz, format!("ref-{n}-{zi}.npz"), c.build()));
        }
    }
    out
}

fn corpus_dir(fmt: Fmt) -> PathBuf {
    let t = TARGETS.iter().find(|t| t.0 == fmt).unwrap().1;
    vcore::verif_root().join("corpus").join(t)
}

/// Every file in the committed corpus directory of a target (sorted).
fn corpus_cases(fmt: Fmt) -> Vec<RawCase> {
    let mut files: Vec<PathBuf> = std::fs::read_dir(corpus_dir(fmt))
        .map(|rd| rd.filter_map(|e| e.ok()).map(|e| e.path()).filter(|p| p.is_file()).collect())
        .unwrap_or_default();
    files.sort();
    files.iter().filter_map(|p| std::fs::read(p).ok()).map(|b| RawCase { fmt, hex: hex(&b) }).collect()
}

// ---------------------------------------------------------------------------
// thorough tier: libFuzzer campaign
// ---------------------------------------------------------------------------

struct FuzzRun {
    fmt: Fmt,
    target: &'static str,
    /// Err = infrastructure problem (inconclusive)
    outcome: Result<(std::process::Output, PathBuf), String>,
}

/// Build all targets once, then run the selected ones side by side.
fn fuzz_campaign(ck: &mut Check, selected: &[(Fmt, &'static str)], runs: u64, max_time_s: u64) {
    use std::process::Command;
    let root = vcore::verif_root();
    let fuzz_dir = root.join("fuzz");
    if !fuzz_dir.join("Cargo.toml").exists() {
        ck.inconclusive(format!("fuzz: {} not found", fuzz_dir.display()));
        return;
    }
    if !fuzz_dir.join("Cargo.lock").exists() {
        let _ = std::fs::copy("/repo/Cargo.lock", fuzz_dir.join("Cargo.lock"));
    }
    let cargo = |args: &[&str]| {
        let mut c = Command::new("cargo");
        // --fuzz-dir: cargo-fuzz otherwise insists on a parent (non-fuzz) cargo project
        c.arg("+nightly").arg("fuzz").args(args).arg("--fuzz-dir").arg(&fuzz_dir);
        c.current_dir(&fuzz_dir).env("CARGO_NET_OFFLINE", "true").env("VCORE_ROOT", &root);
        c
    };
    for (_, target) in selected {
        match cargo(&["build"]).arg(target).output() {
            Ok(o) if o.status.success() => {}
            Ok(o) => {
                ck.inconclusive(format!("fuzz-{target}: `cargo +nightly fuzz build` failed: {}", tail(&String::from_utf8_lossy(&o.stderr), 6)));
                return;
            }
            Err(e) => {
                ck.inconclusive(format!("fuzz-{target}: cannot run cargo fuzz: {e}"));
                return;
            }
        }
    }
    let seed = (ck.seed().wrapping_add(1) as u32).max(1); // libFuzzer: seed 0 = random
    let work_root = root.join("harness/target/vc-serialize/fuzz-work");
    let results: Vec<FuzzRun> = std::thread::scope(|sc| {
        let hs: Vec<_> = selected
            .iter()
            .map(|&(fmt, target)| {
                let (cargo, work_root) = (&cargo, &work_root);
                sc.spawn(move || {
                    let work = work_root.join(target);
                    let _ = std::fs::remove_dir_all(&work);
                    if std::fs::create_dir_all(work.join("artifacts")).is_err() || std::fs::create_dir_all(work.join("corpus")).is_err() {
                        return FuzzRun { fmt, target, outcome: Err(format!("cannot create {}", work.display())) };
                    }
                    let out = cargo(&["run"])
                        .arg(target)
                        .arg(work.join("corpus"))
                        .arg(corpus_dir(fmt))
                        .arg("--")
                        .arg(format!("-runs={runs}"))
                        .arg(format!("-max_total_time={max_time_s}"))
                        .arg(format!("-seed={seed}"))
                        .arg("-len_control=0")
                        .arg("-max_len=4096")
                        .arg("-timeout=60")
                        .arg("-rss_limit_mb=6144")
                        .arg("-malloc_limit_mb=12288")
                        .arg("-print_final_stats=1")
                        .arg(format!("-artifact_prefix={}/", work.join("artifacts").display()))
                        .output();
                    FuzzRun { fmt, target, outcome: out.map(|o| (o, work)).map_err(|e| format!("cannot run the fuzzer: {e}")) }
                })
            })
            .collect();
        hs.into_iter().map(|h| h.join().expect("fuzz thread")).collect()
    });
    for r in results {
        report_fuzz(ck, r, runs, max_time_s, seed);
    }
}

fn report_fuzz(ck: &mut Check, run: FuzzRun, runs: u64, max_time_s: u64, seed: u32) {
    let (fmt, target) = (run.fmt, run.target);
    let name = format!("fuzz-{target}");
    let raw_name = format!("raw-{}", fmt.name());
    let (out, work) = match run.outcome {
        Ok(x) => x,
        Err(e) => {
            ck.inconclusive(format!("{name}: {e}"));
            return;
        }
    };
    let artifacts = work.join("artifacts");
    let live_corpus = work.join("corpus");
    let log = String::from_utf8_lossy(&out.stderr).to_string();
    let stat = |key: &str| -> u64 {
        log.lines()
            .rev()
            .find_map(|l| l.strip_prefix(key).and_then(|r| r.trim().trim_start_matches(':').trim().parse::<u64>().ok()))
            .unwrap_or(0)
    };
    let execs = stat("stat::number_of_executed_units");
    let new_units = stat("stat::new_units_added");
    let live = std::fs::read_dir(&live_corpus).map(|r| r.count() as u64).unwrap_or(0);
    let cov = log
        .lines()
        .rev()
        .find_map(|l| l.split(" cov: ").nth(1).and_then(|r| r.split_whitespace().next()).and_then(|n| n.parse::<u64>().ok()))
        .unwrap_or(0);
    let mut arts: Vec<PathBuf> = std::fs::read_dir(&artifacts)
        .map(|rd| rd.filter_map(|e| e.ok()).map(|e| e.path()).collect())
        .unwrap_or_default();
    arts.sort();
    let mut n_viol = 0;
    for a in &arts {
        let Ok(bytes) = std::fs::read(a) else { continue };
        let kind = a.file_name().and_then(|f| f.to_str()).unwrap_or("").split('-').next().unwrap_or("").to_string();
        let case = RawCase { fmt, hex: hex(&bytes) };
        match check_read(fmt, &bytes) {
            Err(v) => {
                if ck.manual_fail(&raw_name, &case, &v.sig, &format!("found by libFuzzer target {target}: {}", v.detail)) {
                    n_viol += 1;
                } else {
                    // a known finding (e.g. a slow unit caused by a 4 GiB request)
                    let _ = std::fs::remove_file(a);
                }
            }
            // a time-out / memory report is never a violation by itself
            Ok(_) => match kind.as_str() {
                "timeout" | "slow" | "oom" | "leak" => ck.inconclusive(format!(
                    "{name}: libFuzzer reported `{kind}` on a {}-byte unit that the stable harness reads without incident; kept at {}",
                    bytes.len(),
                    a.display()
                )),
                _ => {
                    if ck.manual_fail(
                        &raw_name,
                        &case,
                        &format!("fuzz-crash:{target}:not-reproduced-by-stable-harness"),
                        &format!("libFuzzer/ASan crash artifact {} does not violate the stable oracle; report tail: {}", a.display(), tail(&log, 12)),
                    ) {
                        n_viol += 1;
                    }
                }
            },
        }
    }
    if !out.status.success() && arts.is_empty() {
        ck.inconclusive(format!("{name}: fuzzer exited with {:?} without an artifact: {}", out.status.code(), tail(&log, 6)));
    }
    if execs == 0 && out.status.success() {
        ck.inconclusive(format!("{name}: no executions recorded: {}", tail(&log, 4)));
    }
    ck.extra(
        &name,
        serde_json::json!({"executions": execs, "new_units": new_units, "live_corpus_files": live, "edge_coverage": cov,
            "artifacts": arts.len(), "violations": n_viol, "runs_limit": runs, "max_total_time_s": max_time_s, "libfuzzer_seed": seed}),
    );
    println!("{name}: executions={execs} corpus={live} cov={cov} artifacts={}", arts.len());
    // distinct non-trivial = inputs libFuzzer kept because they reached new coverage
    ck.bulk(&name, execs, live, false, vec![]);
    if std::fs::read_dir(&artifacts).map(|r| r.count() == 0).unwrap_or(true) {
        let _ = std::fs::remove_dir_all(&work);
    }
}

fn tail(log: &str, n: usize) -> String {
    log.lines().rev().take(n).collect::<Vec<_>>().into_iter().rev().collect::<Vec<_>>().join(" | ")
}

fn write_corpus(dir: &Path) {
    for (fmt, name, bytes) in corpus_files() {
        let t = TARGETS.iter().find(|t| t.0 == fmt).unwrap().1;
        let d = dir.join(t);
        std::fs::create_dir_all(&d).expect("corpus dir");
        std::fs::write(d.join(name), bytes).expect("corpus file");
    }
}

fn main() {
    if let Ok(dir) = std::env::var("C34_WRITE_CORPUS") {
        write_corpus(Path::new(&dir));
        return;
    }
    let mut ck = Check::new("C34");
    assert!(vc_serialize::alloc::installed(), "counting allocator not installed");
    ck.rule(
        "(a) tensor case = dtype (all 11) x base shape (rank 0..5, dims 0..17, <=4096 elements) x element bit patterns \
         (special values incl. NaN payloads, -0, extremes; every element distinct where the width allows) x view recipe \
         (<=4 of permute/transpose/stepped slice/index/broadcast). Expected content comes from a strided-layout model; \
         written bytes are decoded by an independent reference decoder and by rten's reader. Archives: 0..4 entries with \
         names from a pool (unicode, '/', empty, '.npy' suffixes, duplicates, reserved) plus random strings. foreign-npy: \
         files from a NumPy-conformant reference encoder (versions 1-3, '<' '>' '=' '|', fortran_order, 16/64 alignment). \
         Non-trivial (a): >=2 elements, or 0-d, or a zero-sized dim; archives: at least one entry. \
         (b) malformed case = reference encoding of 0..3 small tensors + <=3 field perturbations (npy version/header \
         length/descr/fortran flag/shape digits/dict text/data length; zip local/central/EOCD/zip64 record fields; \
         safetensors header length/dtype/shape/offsets/metadata/raw JSON/duplicate keys) + <=3 byte mutations (bit flip, \
         set byte, truncate, delete, insert, splice, integer overwrite, append, repeat). Non-trivial (b): at least one \
         mutation. Pristine reference files (no mutation) must read back as the model. Distinct = distinct Debug rendering.",
    );
    ck.assume("rten-tensor's Tensor::from_data, view(), permuted/slice/broadcast and forward iter() are used to build inputs and to read results; every view is cross-checked against the harness's own strided model before use");
    ck.assume("allocation bound: largest single request seen by a counting #[global_allocator] on the reading thread <= 64*len + 1 MiB; for zip input 64*len + 16 MiB (the zip crate pre-sizes its entry table from the 16-bit entry count: <= 14.5 MiB constant) and 1100*len + 16 MiB when a member names a compression method other than stored");
    ck.assume("termination: reads/seeks are counted (budget 100000 + 64*len calls); a loop that performs no I/O would be caught only by the process watchdog (exit 2)");
    ck.assume("the .npy/.zip/.safetensors reference codecs in refcodec.rs implement the published format descriptions");
    ck.set_threads(16);

    let n = ck.pick(20_000, 300_000);
    ck.prop("roundtrip-npy", n, || tensor_case(4), roundtrip_npy);
    ck.prop(
        "foreign-npy",
        n,
        || {
            (
                tensor_case(0),
                1u8..=3,
                prop_oneof![2 => Just(Endian::Little), 3 => Just(Endian::Big), 1 => Just(Endian::Native), 1 => Just(Endian::LittleExplicit)],
                any::<bool>(),
                any::<bool>(),
            )
                .prop_map(|(tensor, version, endian, fortran, align16)| ForeignCase { tensor, version, endian, fortran, align16 })
        },
        foreign_npy,
    );
    let na = ck.pick(10_000, 150_000);
    ck.prop("roundtrip-npz", na, archive_case, |c| roundtrip_archive(Fmt::Npz, c));
    ck.prop("roundtrip-safetensors", na, archive_case, |c| roundtrip_archive(Fmt::St, c));

    let nm = ck.pick(30_000, 500_000);
    ck.prop("malformed-npy", nm, || mal_case(Fmt::Npy), malformed);
    ck.prop("malformed-npz", nm, || mal_case(Fmt::Npz), malformed);
    ck.prop("malformed-safetensors", nm, || mal_case(Fmt::St), malformed);

    // committed seed corpus (and replay target for fuzz artifacts)
    for (fmt, _) in TARGETS {
        ck.enumerate(&format!("raw-{}", fmt.name()), false, corpus_cases(fmt).into_iter(), raw);
    }

    // The campaign runs once per invocation, from the last flavour's process
    // (its evidence record is the one that survives the merge). cargo-fuzz
    // builds the targets itself (release + debug assertions + ASan).
    if ck.tier() == Tier::Thorough && !ck.is_replay() && vcore::flavour() == "checked" {
        let selected: Vec<(Fmt, &'static str)> = TARGETS.iter().copied().filter(|(_, t)| ck.selected(&format!("fuzz-{t}"))).collect();
        if !selected.is_empty() {
            fuzz_campaign(&mut ck, &selected, 3_000_000, 240);
        }
    }
    ck.finish();
}

//! Independent reference encoders/decoders written from the format
//! specifications (NumPy NEP-1 `.npy`, PKZIP APPNOTE stored archives,
//! safetensors README). They share no code with rten-serialize.

use crate::model::{Dense, DT};

// ---------------------------------------------------------------------------
// element bytes
// ---------------------------------------------------------------------------

pub fn elem_bytes(dt: DT, bits: u64, big_endian: bool, out: &mut Vec<u8>) {
    let le = bits.to_le_bytes();
    let n = dt.size();
    if big_endian {
        out.extend(le[..n].iter().rev());
    } else {
        out.extend_from_slice(&le[..n]);
    }
}

fn elem_from(dt: DT, bytes: &[u8], big_endian: bool) -> u64 {
    let mut le = [0u8; 8];
    let n = dt.size();
    for i in 0..n {
        le[i] = if big_endian { bytes[n - 1 - i] } else { bytes[i] };
    }
    u64::from_le_bytes(le)
}

/// Positions of the row-major elements in a column-major (Fortran) buffer.
fn fortran_positions(shape: &[usize]) -> Vec<usize> {
    // logical index (i0..ik) row-major order -> offset sum(i_j * prod(shape[..j]))
    let lay = crate::model::Lay {
        shape: shape.to_vec(),
        strides: {
            let mut s = Vec::with_capacity(shape.len());
            let mut acc = 1usize;
            for d in shape {
                s.push(acc);
                acc *= *d;
            }
            s
        },
        offset: 0,
    };
    lay.offsets()
}

// ---------------------------------------------------------------------------
// npy
// ---------------------------------------------------------------------------

#[derive(Clone, Debug)]
pub struct NpyDoc {
    pub version: [u8; 2],
    /// None = the true length of the header text.
    pub header_len: Option<u64>,
    pub dict: String,
    pub data: Vec<u8>,
}

impl NpyDoc {
    pub fn to_bytes(&self) -> Vec<u8> {
        let mut out = Vec::new();
        out.extend_from_slice(b"\x93NUMPY");
        out.extend_from_slice(&self.version);
        let len = self.header_len.unwrap_or(self.dict.len() as u64);
        if self.version[0] == 1 {
            out.extend_from_slice(&(len as u16).to_le_bytes());
        } else {
            out.extend_from_slice(&(len as u32).to_le_bytes());
        }
        out.extend_from_slice(self.dict.as_bytes());
        out.extend_from_slice(&self.data);
        out
    }
}

pub fn npy_shape_text(dims: &[String]) -> String {
    match dims.len() {
        0 => "()".to_string(),
        1 => format!("({},)", dims[0]),
        _ => format!("({})", dims.join(", ")),
    }
}

/// Pad a dict the way NumPy does: spaces then '\n' so that the whole preamble
/// is a multiple of `align` (64 in current NumPy, 16 before 1.14).
pub fn npy_pad(dict: &str, version_major: u8, align: usize) -> String {
    let prefix = 6 + 2 + if version_major == 1 { 2 } else { 4 };
    let mut s = dict.to_string();
    let unpadded = prefix + s.len() + 1;
    let pad = (align - unpadded % align) % align;
    s.extend(std::iter::repeat(' ').take(pad));
    s.push('\n');
    s
}

#[derive(Clone, Copy, Debug, PartialEq, Eq, serde::Serialize, serde::Deserialize)]
pub enum Endian {
    /// '<' (or '|' for one-byte types, as NumPy writes)
    Little,
    /// '>'
    Big,
    /// '=' (native; this harness only runs on little-endian hosts)
    Native,
    /// '<' even for one-byte types (accepted by NumPy's dtype parser)
    LittleExplicit,
}

pub fn npy_descr(dt: DT, e: Endian) -> String {
    let c = match e {
        Endian::Little => {
            if dt.size() == 1 {
                '|'
            } else {
                '<'
            }
        }
        Endian::Big => '>',
        Endian::Native => '=',
        Endian::LittleExplicit => '<',
    };
    format!("{c}{}{}", dt.npy_kind(), dt.size())
}

pub fn npy_data(t: &Dense, big_endian: bool, fortran: bool) -> Vec<u8> {
    let mut data = Vec::with_capacity(t.bits.len() * t.dt.size());
    if fortran {
        // buffer position p holds the element whose column-major offset is p
        let pos = fortran_positions(&t.shape);
        let mut order = vec![0usize; pos.len()];
        for (logical, p) in pos.iter().enumerate() {
            order[*p] = logical;
        }
        for l in order {
            elem_bytes(t.dt, t.bits[l], big_endian, &mut data);
        }
    } else {
        for b in &t.bits {
            elem_bytes(t.dt, *b, big_endian, &mut data);
        }
    }
    data
}

/// A file as NumPy would write it.
pub fn npy_encode(t: &Dense, version: u8, e: Endian, fortran: bool, align: usize) -> NpyDoc {
    let dims: Vec<String> = t.shape.iter().map(|d| d.to_string()).collect();
    let dict = format!(
        "{{'descr': '{}', 'fortran_order': {}, 'shape': {}, }}",
        npy_descr(t.dt, e),
        if fortran { "True" } else { "False" },
        npy_shape_text(&dims)
    );
    NpyDoc {
        version: [version, 0],
        header_len: None,
        dict: npy_pad(&dict, version, align),
        data: npy_data(t, e == Endian::Big, fortran),
    }
}

struct P<'a> {
    s: &'a [u8],
    i: usize,
}
impl<'a> P<'a> {
    fn ws(&mut self) {
        while self.i < self.s.len() && (self.s[self.i] as char).is_ascii_whitespace() {
            self.i += 1;
        }
    }
    fn eat(&mut self, c: u8) -> bool {
        self.ws();
        if self.s.get(self.i) == Some(&c) {
            self.i += 1;
            true
        } else {
            false
        }
    }
    fn need(&mut self, c: u8) -> Result<(), String> {
        if self.eat(c) {
            Ok(())
        } else {
            Err(format!("expected '{}' at byte {} of header", c as char, self.i))
        }
    }
    fn string(&mut self) -> Result<String, String> {
        self.ws();
        let q = *self.s.get(self.i).ok_or("eof")?;
        if q != b'\'' && q != b'"' {
            return Err(format!("expected string at byte {}", self.i));
        }
        self.i += 1;
        let st = self.i;
        while self.i < self.s.len() && self.s[self.i] != q {
            if self.s[self.i] == b'\\' {
                return Err("escape in string".into());
            }
            self.i += 1;
        }
        if self.i >= self.s.len() {
            return Err("unterminated string".into());
        }
        let r = String::from_utf8(self.s[st..self.i].to_vec()).map_err(|_| "non-utf8")?;
        self.i += 1;
        Ok(r)
    }
    fn word(&mut self) -> String {
        self.ws();
        let st = self.i;
        while self.i < self.s.len() && (self.s[self.i].is_ascii_alphanumeric() || self.s[self.i] == b'_') {
            self.i += 1;
        }
        String::from_utf8_lossy(&self.s[st..self.i]).to_string()
    }
    /// Python tuple-of-ints literal: `()`, `(n,)`, `(n, m)`, `(n, m,)`.
    /// `(n)` is an int, not a tuple, and NumPy rejects it.
    fn shape(&mut self) -> Result<Vec<usize>, String> {
        self.need(b'(')?;
        let mut dims = Vec::new();
        let mut last_was_comma = false;
        loop {
            if self.eat(b')') {
                break;
            }
            let w = self.word();
            if w.is_empty() || !w.bytes().all(|b| b.is_ascii_digit()) {
                return Err(format!("bad dimension {w:?}"));
            }
            dims.push(w.parse::<usize>().map_err(|e| e.to_string())?);
            last_was_comma = self.eat(b',');
            if !last_was_comma {
                self.need(b')')?;
                break;
            }
        }
        if dims.len() == 1 && !last_was_comma {
            return Err("'(n)' is not a tuple: a 1-tuple needs a trailing comma".into());
        }
        Ok(dims)
    }
}

/// Strict decoder for files produced by a conforming writer.
pub fn npy_decode(bytes: &[u8]) -> Result<Dense, String> {
    if bytes.len() < 10 || &bytes[..6] != b"\x93NUMPY" {
        return Err("bad magic".into());
    }
    let (major, minor) = (bytes[6], bytes[7]);
    if !(1..=3).contains(&major) || minor != 0 {
        return Err(format!("unknown version {major}.{minor}"));
    }
    let (hlen, hstart): (usize, usize) = if major == 1 {
        (u16::from_le_bytes([bytes[8], bytes[9]]) as usize, 10)
    } else {
        if bytes.len() < 12 {
            return Err("short".into());
        }
        (u32::from_le_bytes([bytes[8], bytes[9], bytes[10], bytes[11]]) as usize, 12)
    };
    let hend = hstart.checked_add(hlen).filter(|e| *e <= bytes.len()).ok_or("header runs past end of file")?;
    let header = &bytes[hstart..hend];
    if header.last() != Some(&b'\n') {
        return Err("header is not terminated by a newline".into());
    }
    if major < 3 && !header.is_ascii() {
        return Err("version 1/2 header must be latin-1/ASCII".into());
    }
    let mut p = P { s: header, i: 0 };
    p.need(b'{')?;
    let (mut descr, mut fortran, mut shape) = (None, None, None);
    loop {
        if p.eat(b'}') {
            break;
        }
        let key = p.string()?;
        p.need(b':')?;
        match key.as_str() {
            "descr" => descr = Some(p.string()?),
            "fortran_order" => {
                fortran = Some(match p.word().as_str() {
                    "True" => true,
                    "False" => false,
                    w => return Err(format!("bad bool {w:?}")),
                })
            }
            "shape" => shape = Some(p.shape()?),
            k => return Err(format!("unexpected key {k:?}")),
        }
        if !p.eat(b',') {
            p.need(b'}')?;
            break;
        }
    }
    p.ws();
    if p.i != header.len() {
        return Err("trailing characters after the dict".into());
    }
    let (descr, fortran, shape) = (descr.ok_or("no descr")?, fortran.ok_or("no fortran_order")?, shape.ok_or("no shape")?);
    let db = descr.as_bytes();
    if db.len() < 3 {
        return Err(format!("bad descr {descr:?}"));
    }
    let big = match db[0] {
        b'<' | b'|' | b'=' => false,
        b'>' => true,
        _ => return Err(format!("bad byte order in {descr:?}")),
    };
    let size: usize = descr[2..].parse().map_err(|_| format!("bad descr {descr:?}"))?;
    let dt = DT::from_npy(db[1] as char, size).ok_or(format!("unsupported descr {descr:?}"))?;
    if db[0] == b'|' && size != 1 {
        return Err(format!("'|' byte order on a multi-byte type {descr:?}"));
    }
    let n: usize = shape.iter().product();
    let data = &bytes[hend..];
    if data.len() != n * size {
        return Err(format!("data section has {} bytes, shape {:?} of {descr} needs {}", data.len(), shape, n * size));
    }
    let stored: Vec<u64> = data.chunks_exact(size).map(|c| elem_from(dt, c, big)).collect();
    let bits = if fortran { fortran_positions(&shape).into_iter().map(|p| stored[p]).collect() } else { stored };
    Ok(Dense { dt, shape, bits })
}

// ---------------------------------------------------------------------------
// zip (stored entries only)
// ---------------------------------------------------------------------------

pub fn crc32(data: &[u8]) -> u32 {
    let mut crc = 0xffff_ffffu32;
    for b in data {
        crc ^= *b as u32;
        for _ in 0..8 {
            crc = if crc & 1 != 0 { (crc >> 1) ^ 0xedb8_8320 } else { crc >> 1 };
        }
    }
    !crc
}

fn u16at(b: &[u8], o: usize) -> Result<usize, String> {
    b.get(o..o + 2).map(|s| u16::from_le_bytes([s[0], s[1]]) as usize).ok_or_else(|| "zip: truncated".to_string())
}
fn u32at(b: &[u8], o: usize) -> Result<usize, String> {
    b.get(o..o + 4)
        .map(|s| u32::from_le_bytes([s[0], s[1], s[2], s[3]]) as usize)
        .ok_or_else(|| "zip: truncated".to_string())
}

#[derive(Debug, Clone)]
pub struct ZipMember {
    pub name: Vec<u8>,
    pub utf8_flag: bool,
    pub data: Vec<u8>,
}

/// Minimal strict reader for archives of stored members without zip64.
pub fn zip_members(bytes: &[u8]) -> Result<Vec<ZipMember>, String> {
    if bytes.len() < 22 {
        return Err("zip: too short".into());
    }
    let eocd = (0..=bytes.len() - 22)
        .rev()
        .find(|&i| &bytes[i..i + 4] == b"PK\x05\x06" && u16at(bytes, i + 20).map(|c| i + 22 + c == bytes.len()).unwrap_or(false))
        .ok_or("zip: no end-of-central-directory record")?;
    let total = u16at(bytes, eocd + 10)?;
    let cd_size = u32at(bytes, eocd + 12)?;
    let cd_off = u32at(bytes, eocd + 16)?;
    if total == 0xffff || cd_off == 0xffff_ffff {
        return Err("zip: zip64 not supported by the reference reader".into());
    }
    if cd_off + cd_size != eocd {
        return Err(format!("zip: central directory [{cd_off}+{cd_size}] does not end at the EOCD ({eocd})"));
    }
    let mut out = Vec::new();
    let mut p = cd_off;
    for _ in 0..total {
        if bytes.get(p..p + 4) != Some(b"PK\x01\x02") {
            return Err("zip: bad central header signature".into());
        }
        let flags = u16at(bytes, p + 8)?;
        let method = u16at(bytes, p + 10)?;
        let crc = u32at(bytes, p + 16)?;
        let csize = u32at(bytes, p + 20)?;
        let usize_ = u32at(bytes, p + 24)?;
        let (nlen, xlen, clen) = (u16at(bytes, p + 28)?, u16at(bytes, p + 30)?, u16at(bytes, p + 32)?);
        let lho = u32at(bytes, p + 42)?;
        let name = bytes.get(p + 46..p + 46 + nlen).ok_or("zip: truncated name")?.to_vec();
        p += 46 + nlen + xlen + clen;
        if method != 0 {
            return Err(format!("zip: member uses method {method}, expected stored"));
        }
        if csize != usize_ {
            return Err("zip: stored member with csize != usize".into());
        }
        if bytes.get(lho..lho + 4) != Some(b"PK\x03\x04") {
            return Err("zip: bad local header signature".into());
        }
        let (lnlen, lxlen) = (u16at(bytes, lho + 26)?, u16at(bytes, lho + 28)?);
        if bytes.get(lho + 30..lho + 30 + lnlen) != Some(&name[..]) {
            return Err("zip: local and central names differ".into());
        }
        let ds = lho + 30 + lnlen + lxlen;
        let data = bytes.get(ds..ds + csize).ok_or("zip: member data truncated")?.to_vec();
        if crc32(&data) as usize != crc {
            return Err("zip: CRC mismatch".into());
        }
        out.push(ZipMember { name, utf8_flag: flags & 0x800 != 0, data });
    }
    if p != eocd {
        return Err("zip: central directory size mismatch".into());
    }
    Ok(out)
}

/// Minimal writer: stored members, UTF-8 flag set. With `zip64_end` the
/// archive ends with a zip64 end-of-central-directory record + locator and a
/// classic EOCD whose count/size/offset fields hold the 0xffff.. markers.
pub fn zip_write(members: &[(Vec<u8>, Vec<u8>)], zip64_end: bool) -> Vec<u8> {
    let mut out = Vec::new();
    let mut cd = Vec::new();
    for (name, data) in members {
        let lho = out.len() as u32;
        let crc = crc32(data);
        let mut common = Vec::new();
        common.extend_from_slice(&20u16.to_le_bytes()); // version needed
        common.extend_from_slice(&0x800u16.to_le_bytes()); // flags: utf-8
        common.extend_from_slice(&0u16.to_le_bytes()); // stored
        common.extend_from_slice(&0u16.to_le_bytes()); // time
        common.extend_from_slice(&0x21u16.to_le_bytes()); // date 1980-01-01
        common.extend_from_slice(&crc.to_le_bytes());
        common.extend_from_slice(&(data.len() as u32).to_le_bytes());
        common.extend_from_slice(&(data.len() as u32).to_le_bytes());
        common.extend_from_slice(&(name.len() as u16).to_le_bytes());
        common.extend_from_slice(&0u16.to_le_bytes()); // extra len
        out.extend_from_slice(b"PK\x03\x04");
        out.extend_from_slice(&common);
        out.extend_from_slice(name);
        out.extend_from_slice(data);
        cd.extend_from_slice(b"PK\x01\x02");
        cd.extend_from_slice(&20u16.to_le_bytes()); // version made by
        cd.extend_from_slice(&common);
        cd.extend_from_slice(&0u16.to_le_bytes()); // comment len
        cd.extend_from_slice(&0u16.to_le_bytes()); // disk
        cd.extend_from_slice(&0u16.to_le_bytes()); // internal attrs
        cd.extend_from_slice(&0u32.to_le_bytes()); // external attrs
        cd.extend_from_slice(&lho.to_le_bytes());
        cd.extend_from_slice(name);
    }
    let cd_off = out.len() as u32;
    out.extend_from_slice(&cd);
    if zip64_end {
        let e64 = out.len() as u64;
        out.extend_from_slice(b"PK\x06\x06");
        out.extend_from_slice(&44u64.to_le_bytes()); // size of the remaining record
        out.extend_from_slice(&45u16.to_le_bytes()); // version made by
        out.extend_from_slice(&45u16.to_le_bytes()); // version needed
        out.extend_from_slice(&0u32.to_le_bytes()); // this disk
        out.extend_from_slice(&0u32.to_le_bytes()); // disk with cd
        out.extend_from_slice(&(members.len() as u64).to_le_bytes());
        out.extend_from_slice(&(members.len() as u64).to_le_bytes());
        out.extend_from_slice(&(cd.len() as u64).to_le_bytes());
        out.extend_from_slice(&(cd_off as u64).to_le_bytes());
        out.extend_from_slice(b"PK\x06\x07");
        out.extend_from_slice(&0u32.to_le_bytes()); // disk with the zip64 EOCD
        out.extend_from_slice(&e64.to_le_bytes());
        out.extend_from_slice(&1u32.to_le_bytes()); // total disks
        out.extend_from_slice(b"PK\x05\x06");
        out.extend_from_slice(&0u16.to_le_bytes());
        out.extend_from_slice(&0u16.to_le_bytes());
        out.extend_from_slice(&0xffffu16.to_le_bytes());
        out.extend_from_slice(&0xffffu16.to_le_bytes());
        out.extend_from_slice(&0xffff_ffffu32.to_le_bytes());
        out.extend_from_slice(&0xffff_ffffu32.to_le_bytes());
        out.extend_from_slice(&0u16.to_le_bytes());
        return out;
    }
    out.extend_from_slice(b"PK\x05\x06");
    out.extend_from_slice(&0u16.to_le_bytes());
    out.extend_from_slice(&0u16.to_le_bytes());
    out.extend_from_slice(&(members.len() as u16).to_le_bytes());
    out.extend_from_slice(&(members.len() as u16).to_le_bytes());
    out.extend_from_slice(&(cd.len() as u32).to_le_bytes());
    out.extend_from_slice(&cd_off.to_le_bytes());
    out.extend_from_slice(&0u16.to_le_bytes());
    out
}

// ---------------------------------------------------------------------------
// safetensors
// ---------------------------------------------------------------------------

pub fn json_string(s: &str) -> String {
    serde_json::to_string(s).unwrap()
}

#[derive(Clone, Debug)]
pub struct StEntry {
    pub name: String,
    /// dtype as JSON text (normally a quoted string)
    pub dtype: String,
    /// each dimension as JSON text
    pub shape: Vec<String>,
    pub begin: String,
    pub end: String,
}

#[derive(Clone, Debug)]
pub struct StDoc {
    pub header_len: Option<u64>,
    pub entries: Vec<StEntry>,
    /// raw JSON value for `__metadata__`
    pub metadata: Option<String>,
    /// replaces the whole JSON text
    pub raw_json: Option<String>,
    pub pad: usize,
    pub data: Vec<u8>,
}

impl StDoc {
    pub fn json(&self) -> String {
        if let Some(r) = &self.raw_json {
            return r.clone();
        }
        let mut parts = Vec::new();
        if let Some(m) = &self.metadata {
            parts.push(format!("\"__metadata__\":{m}"));
        }
        for e in &self.entries {
            parts.push(format!(
                "{}:{{\"dtype\":{},\"shape\":[{}],\"data_offsets\":[{},{}]}}",
                json_string(&e.name),
                e.dtype,
                e.shape.join(","),
                e.begin,
                e.end
            ));
        }
        let mut s = format!("{{{}}}", parts.join(","));
        s.extend(std::iter::repeat(' ').take(self.pad));
        s
    }
    pub fn to_bytes(&self) -> Vec<u8> {
        let j = self.json();
        let mut out = Vec::new();
        out.extend_from_slice(&self.header_len.unwrap_or(j.len() as u64).to_le_bytes());
        out.extend_from_slice(j.as_bytes());
        out.extend_from_slice(&self.data);
        out
    }
}

/// A valid file for the given tensors (in the given order).
pub fn st_encode(tensors: &[(String, Dense)], pad: usize) -> StDoc {
    let mut data = Vec::new();
    let mut entries = Vec::new();
    for (name, t) in tensors {
        let begin = data.len();
        for b in &t.bits {
            elem_bytes(t.dt, *b, false, &mut data);
        }
        entries.push(StEntry {
            name: name.clone(),
            dtype: json_string(t.dt.st_name()),
            shape: t.shape.iter().map(|d| d.to_string()).collect(),
            begin: begin.to_string(),
            end: data.len().to_string(),
        });
    }
    StDoc { header_len: None, entries, metadata: None, raw_json: None, pad, data }
}

/// Strict decoder for files produced by a conforming writer.
pub fn st_decode(bytes: &[u8]) -> Result<Vec<(String, Dense)>, String> {
    if bytes.len() < 8 {
        return Err("st: too short".into());
    }
    let n = u64::from_le_bytes(bytes[..8].try_into().unwrap());
    let n = usize::try_from(n).ok().filter(|n| *n <= bytes.len() - 8).ok_or("st: header length beyond the file")?;
    let header = &bytes[8..8 + n];
    if header.first() != Some(&b'{') {
        return Err("st: header must start with '{'".into());
    }
    let text = std::str::from_utf8(header).map_err(|_| "st: header is not UTF-8")?;
    // duplicate keys would be silently merged by serde_json::Value: count them
    let v: serde_json::Value = serde_json::from_str(text).map_err(|e| format!("st: bad JSON: {e}"))?;
    let obj = v.as_object().ok_or("st: header is not an object")?;
    let data = &bytes[8 + n..];
    let mut out = Vec::new();
    let mut spans = Vec::new();
    for (k, e) in obj {
        if k == "__metadata__" {
            let m = e.as_object().ok_or("st: __metadata__ is not an object")?;
            if !m.values().all(|x| x.is_string()) {
                return Err("st: __metadata__ values must be strings".into());
            }
            continue;
        }
        let dt = e["dtype"].as_str().and_then(DT::from_st).ok_or(format!("st: bad dtype in {k:?}"))?;
        let shape: Vec<usize> = e["shape"]
            .as_array()
            .ok_or("st: bad shape")?
            .iter()
            .map(|d| d.as_u64().map(|d| d as usize).ok_or("st: bad dim"))
            .collect::<Result<_, _>>()?;
        let off = e["data_offsets"].as_array().filter(|a| a.len() == 2).ok_or("st: bad data_offsets")?;
        let (b, en) = (
            off[0].as_u64().ok_or("st: bad offset")? as usize,
            off[1].as_u64().ok_or("st: bad offset")? as usize,
        );
        let count: usize = shape.iter().product();
        if en < b || en > data.len() || en - b != count * dt.size() {
            return Err(format!("st: entry {k:?} offsets [{b},{en}] do not match shape {shape:?} of {dt:?} (data {} bytes)", data.len()));
        }
        let bits = data[b..en].chunks_exact(dt.size()).map(|c| elem_from(dt, c, false)).collect();
        spans.push((b, en));
        out.push((k.clone(), Dense { dt, shape, bits }));
    }
    spans.sort();
    let mut pos = 0;
    for (b, e) in spans {
        if b != pos {
            return Err("st: data spans are not contiguous from 0".into());
        }
        pos = e;
    }
    if pos != data.len() {
        return Err("st: data buffer is not fully covered".into());
    }
    Ok(out)
}

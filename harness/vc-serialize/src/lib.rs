//! Shared code of the C34 check (tensor file formats) and of the libFuzzer
//! targets under /verif/fuzz.

pub mod alloc;
pub mod entry;
pub mod model;
pub mod mutate;
pub mod refcodec;

pub use entry::{fuzz_npy, fuzz_npz, fuzz_safetensors, Fmt};

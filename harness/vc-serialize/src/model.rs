//! Tensor model that is independent of rten: element bit patterns, shapes and
//! a strided-layout interpreter for the view recipes.

use proptest::prelude::*;
use rten_serialize::{DataType, Value, View};
use rten_tensor::prelude::*;
use rten_tensor::{SliceItem, Tensor, TensorView};
use serde::{Deserialize, Serialize};

#[derive(Clone, Copy, Debug, PartialEq, Eq, Hash, Serialize, Deserialize)]
pub enum DT {
    Bool,
    I8,
    I16,
    I32,
    I64,
    U8,
    U16,
    U32,
    U64,
    F32,
    F64,
}

pub const ALL_DT: [DT; 11] = [
    DT::Bool,
    DT::I8,
    DT::I16,
    DT::I32,
    DT::I64,
    DT::U8,
    DT::U16,
    DT::U32,
    DT::U64,
    DT::F32,
    DT::F64,
];

impl DT {
    pub fn size(self) -> usize {
        match self {
            DT::Bool | DT::I8 | DT::U8 => 1,
            DT::I16 | DT::U16 => 2,
            DT::I32 | DT::U32 | DT::F32 => 4,
            DT::I64 | DT::U64 | DT::F64 => 8,
        }
    }
    /// NumPy kind character.
    pub fn npy_kind(self) -> char {
        match self {
            DT::Bool => 'b',
            DT::I8 | DT::I16 | DT::I32 | DT::I64 => 'i',
            DT::U8 | DT::U16 | DT::U32 | DT::U64 => 'u',
            DT::F32 | DT::F64 => 'f',
        }
    }
    pub fn from_npy(kind: char, size: usize) -> Option<DT> {
        ALL_DT.iter().copied().find(|d| d.npy_kind() == kind && d.size() == size)
    }
    /// safetensors dtype string.
    pub fn st_name(self) -> &'static str {
        match self {
            DT::Bool => "BOOL",
            DT::I8 => "I8",
            DT::I16 => "I16",
            DT::I32 => "I32",
            DT::I64 => "I64",
            DT::U8 => "U8",
            DT::U16 => "U16",
            DT::U32 => "U32",
            DT::U64 => "U64",
            DT::F32 => "F32",
            DT::F64 => "F64",
        }
    }
    pub fn from_st(name: &str) -> Option<DT> {
        ALL_DT.iter().copied().find(|d| d.st_name() == name)
    }
    pub fn label(self) -> &'static str {
        match self {
            DT::Bool => "dtype:bool",
            DT::I8 => "dtype:i8",
            DT::I16 => "dtype:i16",
            DT::I32 => "dtype:i32",
            DT::I64 => "dtype:i64",
            DT::U8 => "dtype:u8",
            DT::U16 => "dtype:u16",
            DT::U32 => "dtype:u32",
            DT::U64 => "dtype:u64",
            DT::F32 => "dtype:f32",
            DT::F64 => "dtype:f64",
        }
    }
    pub fn of(d: DataType) -> Option<DT> {
        Some(match d {
            DataType::Bool => DT::Bool,
            DataType::Int8 => DT::I8,
            DataType::Int16 => DT::I16,
            DataType::Int32 => DT::I32,
            DataType::Int64 => DT::I64,
            DataType::UInt8 => DT::U8,
            DataType::UInt16 => DT::U16,
            DataType::UInt32 => DT::U32,
            DataType::UInt64 => DT::U64,
            DataType::Float32 => DT::F32,
            DataType::Float64 => DT::F64,
            _ => return None,
        })
    }
    /// Canonical bit pattern of width `size()` for arbitrary 64 generated bits.
    pub fn canon(self, bits: u64) -> u64 {
        match self {
            DT::Bool => bits & 1,
            _ if self.size() == 8 => bits,
            _ => bits & ((1u64 << (8 * self.size())) - 1),
        }
    }
}

/// A tensor as plain data: logical (row-major) element bit patterns.
#[derive(Clone, Debug, PartialEq, Eq)]
pub struct Dense {
    pub dt: DT,
    pub shape: Vec<usize>,
    pub bits: Vec<u64>,
}

impl Dense {
    pub fn describe(&self) -> String {
        let n = self.bits.len().min(12);
        format!(
            "{:?}{:?} [{}{}]",
            self.dt,
            self.shape,
            self.bits[..n].iter().map(|b| format!("{b:#x}")).collect::<Vec<_>>().join(","),
            if self.bits.len() > n { ",…" } else { "" }
        )
    }
    /// First difference to `other`, human readable.
    pub fn diff(&self, other: &Dense) -> Option<String> {
        if self.dt != other.dt {
            return Some(format!("dtype {:?} != {:?}", self.dt, other.dt));
        }
        if self.shape != other.shape {
            return Some(format!("shape {:?} != {:?}", self.shape, other.shape));
        }
        if self.bits.len() != other.bits.len() {
            return Some(format!("element count {} != {}", self.bits.len(), other.bits.len()));
        }
        for (i, (a, b)) in self.bits.iter().zip(&other.bits).enumerate() {
            if a != b {
                return Some(format!("element {i}: bits {a:#x} != {b:#x}"));
            }
        }
        None
    }
    /// Short class of a difference (for signatures).
    pub fn diff_class(&self, other: &Dense) -> &'static str {
        if self.dt != other.dt {
            "dtype"
        } else if self.shape != other.shape {
            "shape"
        } else {
            "elements"
        }
    }
}

pub trait Elem: Copy + 'static {
    fn from_bits(b: u64) -> Self;
    fn bits(self) -> u64;
}
macro_rules! int_elem {
    ($($t:ty, $u:ty);*) => {$(
        impl Elem for $t {
            fn from_bits(b: u64) -> Self { b as $u as $t }
            fn bits(self) -> u64 { self as $u as u64 }
        }
    )*};
}
int_elem!(i8, u8; i16, u16; i32, u32; i64, u64; u8, u8; u16, u16; u32, u32; u64, u64);
impl Elem for bool {
    fn from_bits(b: u64) -> Self {
        b & 1 == 1
    }
    fn bits(self) -> u64 {
        self as u64
    }
}
impl Elem for f32 {
    fn from_bits(b: u64) -> Self {
        f32::from_bits(b as u32)
    }
    fn bits(self) -> u64 {
        self.to_bits() as u64
    }
}
impl Elem for f64 {
    fn from_bits(b: u64) -> Self {
        f64::from_bits(b)
    }
    fn bits(self) -> u64 {
        self.to_bits()
    }
}

/// Evaluate `$body` once per element type with `$v` bound to the payload.
macro_rules! each_variant {
    ($en:ident, $x:expr, $v:ident => $body:expr) => {
        match $x {
            $en::Bool($v) => Some((DT::Bool, $body)),
            $en::Int8($v) => Some((DT::I8, $body)),
            $en::Int16($v) => Some((DT::I16, $body)),
            $en::Int32($v) => Some((DT::I32, $body)),
            $en::Int64($v) => Some((DT::I64, $body)),
            $en::UInt8($v) => Some((DT::U8, $body)),
            $en::UInt16($v) => Some((DT::U16, $body)),
            $en::UInt32($v) => Some((DT::U32, $body)),
            $en::UInt64($v) => Some((DT::U64, $body)),
            $en::Float32($v) => Some((DT::F32, $body)),
            $en::Float64($v) => Some((DT::F64, $body)),
            #[allow(unreachable_patterns)]
            _ => None,
        }
    };
}

fn bits_of_view<T: Elem>(v: &TensorView<T>) -> (Vec<usize>, Vec<u64>) {
    (v.shape().to_vec(), v.iter().map(|x| x.bits()).collect())
}

/// Plain-data content of a `Value` returned by a reader.
pub fn dense_of_value(v: &Value) -> Dense {
    let (dt, (shape, bits)) = each_variant!(Value, v, t => bits_of_view(&t.view())).expect("unknown Value variant");
    // cross-check the reported dtype
    assert_eq!(DT::of(v.dtype()), Some(dt), "Value::dtype() disagrees with its variant");
    Dense { dt, shape, bits }
}

/// Plain-data content of a `View` (uses rten's own iteration order).
pub fn dense_of_view(v: &View) -> Dense {
    let (dt, (shape, bits)) = each_variant!(View, v, t => bits_of_view(t)).expect("unknown View variant");
    Dense { dt, shape, bits }
}

// ---------------------------------------------------------------------------
// Cases
// ---------------------------------------------------------------------------

#[derive(Clone, Debug, Serialize, Deserialize, PartialEq)]
pub enum Op {
    /// Permute axes by the argsort of the keys.
    Permute([u8; 5]),
    Transpose,
    /// Keep `start..` with `step` on one axis, at most `len` items.
    Slice { axis: u8, start: u8, len: u8, step: u8 },
    /// Select one index on an axis (drops the axis).
    Index { axis: u8, idx: u8 },
    /// Add `lead` new leading axes (sizes 1..=3) and expand every size-1 axis
    /// to `expand` (stride 0).
    Broadcast { lead: Vec<u8>, expand: u8 },
}

#[derive(Clone, Debug, Serialize, Deserialize, PartialEq)]
pub struct TensorCase {
    pub dt: DT,
    pub base_shape: Vec<usize>,
    /// Element bit patterns: element i of the base tensor is `vals[i]` for
    /// i < len and a mix of `vals[i % len]` and i afterwards.
    pub vals: Vec<u64>,
    pub ops: Vec<Op>,
}

/// Concrete, validated view operations.
#[derive(Clone, Debug)]
pub enum ROp {
    Permute(Vec<usize>),
    Slice { axis: usize, start: usize, end: usize, step: usize },
    Index { axis: usize, idx: usize },
    Broadcast(Vec<usize>),
}

#[derive(Clone, Debug)]
pub struct Lay {
    pub shape: Vec<usize>,
    pub strides: Vec<usize>,
    pub offset: usize,
}

impl Lay {
    pub fn contiguous(shape: &[usize]) -> Lay {
        let mut strides = vec![0; shape.len()];
        let mut s = 1usize;
        for i in (0..shape.len()).rev() {
            strides[i] = s;
            s *= shape[i];
        }
        Lay { shape: shape.to_vec(), strides, offset: 0 }
    }
    pub fn len(&self) -> usize {
        self.shape.iter().product()
    }
    /// Offsets of all elements in logical (row-major) order.
    pub fn offsets(&self) -> Vec<usize> {
        let n = self.len();
        let mut out = Vec::with_capacity(n);
        if n == 0 {
            return out;
        }
        let mut idx = vec![0usize; self.shape.len()];
        loop {
            out.push(self.offset + idx.iter().zip(&self.strides).map(|(i, s)| i * s).sum::<usize>());
            let mut ax = self.shape.len();
            loop {
                if ax == 0 {
                    return out;
                }
                ax -= 1;
                idx[ax] += 1;
                if idx[ax] < self.shape[ax] {
                    break;
                }
                idx[ax] = 0;
            }
        }
    }
    pub fn is_contiguous(&self) -> bool {
        let c = Lay::contiguous(&self.shape);
        self.len() == 0 || (0..self.shape.len()).all(|i| self.shape[i] == 1 || self.strides[i] == c.strides[i])
    }
}

pub const MAX_RANK: usize = 5;
pub const MAX_ELEMS: usize = 4096;

impl TensorCase {
    pub fn base_len(&self) -> usize {
        self.base_shape.iter().product()
    }
    pub fn base_bits(&self) -> Vec<u64> {
        let n = self.base_len();
        let l = self.vals.len().max(1);
        (0..n)
            .map(|i| {
                let v = self.vals.get(i % l).copied().unwrap_or(0);
                let raw = if i < l {
                    v
                } else {
                    v.rotate_left((i % 61) as u32) ^ (i as u64).wrapping_mul(0x9E37_79B9_7F4A_7C15)
                };
                self.dt.canon(raw)
            })
            .collect()
    }

    /// Validate the recipe against the evolving layout.
    pub fn resolve(&self) -> (Vec<ROp>, Lay) {
        let mut lay = Lay::contiguous(&self.base_shape);
        let mut rops = Vec::new();
        for op in &self.ops {
            let rank = lay.shape.len();
            match op {
                Op::Permute(keys) => {
                    if rank >= 2 {
                        let mut perm: Vec<usize> = (0..rank).collect();
                        perm.sort_by_key(|&i| (keys[i], i));
                        lay = Lay {
                            shape: perm.iter().map(|&i| lay.shape[i]).collect(),
                            strides: perm.iter().map(|&i| lay.strides[i]).collect(),
                            offset: lay.offset,
                        };
                        rops.push(ROp::Permute(perm));
                    }
                }
                Op::Transpose => {
                    if rank >= 2 {
                        let mut perm: Vec<usize> = (0..rank).collect();
                        perm.swap(rank - 1, rank - 2);
                        lay = Lay {
                            shape: perm.iter().map(|&i| lay.shape[i]).collect(),
                            strides: perm.iter().map(|&i| lay.strides[i]).collect(),
                            offset: lay.offset,
                        };
                        rops.push(ROp::Permute(perm));
                    }
                }
                Op::Slice { axis, start, len, step } => {
                    if rank >= 1 {
                        let axis = (*axis as usize) % rank;
                        let size = lay.shape[axis];
                        let start = (*start as usize).min(size);
                        let step = (*step as usize).max(1);
                        let avail = (size - start + step - 1) / step;
                        let count = avail.min(*len as usize);
                        // end index (exclusive) that yields exactly `count` items
                        let end = if count == 0 { start } else { (start + (count - 1) * step + 1).min(size) };
                        lay.offset += if count == 0 { 0 } else { start * lay.strides[axis] };
                        lay.shape[axis] = count;
                        lay.strides[axis] *= step;
                        rops.push(ROp::Slice { axis, start, end, step });
                    }
                }
                Op::Index { axis, idx } => {
                    if rank >= 1 {
                        let axis = (*axis as usize) % rank;
                        let size = lay.shape[axis];
                        if size > 0 {
                            let idx = (*idx as usize) % size;
                            lay.offset += idx * lay.strides[axis];
                            lay.shape.remove(axis);
                            lay.strides.remove(axis);
                            rops.push(ROp::Index { axis, idx });
                        }
                    }
                }
                Op::Broadcast { lead, expand } => {
                    let mut shape = lay.shape.clone();
                    let mut strides = lay.strides.clone();
                    let expand = (*expand as usize).clamp(1, 4);
                    let mut total: usize = lay.len();
                    for i in 0..shape.len() {
                        if shape[i] == 1 && total * expand <= MAX_ELEMS {
                            shape[i] = expand;
                            strides[i] = 0;
                            total *= expand;
                        }
                    }
                    for l in lead.iter() {
                        let l = (*l as usize).clamp(1, 3);
                        if shape.len() < MAX_RANK && total * l <= MAX_ELEMS {
                            shape.insert(0, l);
                            strides.insert(0, 0);
                            total *= l;
                        }
                    }
                    if shape != lay.shape {
                        lay = Lay { shape: shape.clone(), strides, offset: lay.offset };
                        rops.push(ROp::Broadcast(shape));
                    }
                }
            }
        }
        (rops, lay)
    }

    /// Expected logical content of the view, from the model only.
    pub fn model(&self) -> Dense {
        let base = self.base_bits();
        let (_, lay) = self.resolve();
        let bits = lay.offsets().into_iter().map(|o| base[o]).collect();
        Dense { dt: self.dt, shape: lay.shape, bits }
    }

    /// The base (contiguous, owned) tensor as an rten value.
    pub fn base_value(&self) -> Value {
        let bits = self.base_bits();
        fn mk<T: Elem>(shape: &[usize], bits: &[u64]) -> Tensor<T> {
            Tensor::from_data(shape, bits.iter().map(|b| T::from_bits(*b)).collect::<Vec<T>>())
        }
        let s = &self.base_shape[..];
        match self.dt {
            DT::Bool => Value::from(mk::<bool>(s, &bits)),
            DT::I8 => Value::from(mk::<i8>(s, &bits)),
            DT::I16 => Value::from(mk::<i16>(s, &bits)),
            DT::I32 => Value::from(mk::<i32>(s, &bits)),
            DT::I64 => Value::from(mk::<i64>(s, &bits)),
            DT::U8 => Value::from(mk::<u8>(s, &bits)),
            DT::U16 => Value::from(mk::<u16>(s, &bits)),
            DT::U32 => Value::from(mk::<u32>(s, &bits)),
            DT::U64 => Value::from(mk::<u64>(s, &bits)),
            DT::F32 => Value::from(mk::<f32>(s, &bits)),
            DT::F64 => Value::from(mk::<f64>(s, &bits)),
        }
    }
}

fn apply_rops<'a, T>(mut v: TensorView<'a, T>, rops: &[ROp]) -> TensorView<'a, T> {
    for op in rops {
        v = match op {
            ROp::Permute(p) => v.permuted(p.as_slice()),
            ROp::Slice { axis, start, end, step } => {
                let items: Vec<SliceItem> = (0..v.ndim())
                    .map(|a| {
                        if a == *axis {
                            SliceItem::range(*start as isize, Some(*end as isize), *step as isize)
                        } else {
                            SliceItem::full_range()
                        }
                    })
                    .collect();
                v.slice(items.as_slice())
            }
            ROp::Index { axis, idx } => {
                let items: Vec<SliceItem> = (0..v.ndim())
                    .map(|a| if a == *axis { SliceItem::Index(*idx as isize) } else { SliceItem::full_range() })
                    .collect();
                v.slice(items.as_slice())
            }
            ROp::Broadcast(shape) => v.broadcast(shape.as_slice()),
        };
    }
    v
}

/// Build the (possibly non-contiguous) view described by the recipe over `base`.
pub fn view_of<'a>(base: &'a Value, rops: &[ROp]) -> View<'a> {
    let (_, v) = each_variant!(Value, base, t => View::from(apply_rops(t.view(), rops))).expect("unknown Value variant");
    v
}

/// Is the rten view contiguous (as seen by rten)?
pub fn view_is_contiguous(v: &View) -> bool {
    let (_, c) = each_variant!(View, v, t => t.data().is_some()).expect("unknown View variant");
    c
}

// ---------------------------------------------------------------------------
// Strategies
// ---------------------------------------------------------------------------

pub fn dt_strategy() -> impl Strategy<Value = DT> {
    (0..ALL_DT.len()).prop_map(|i| ALL_DT[i])
}

const SPECIAL_BITS: [u64; 28] = [
    0,
    1,
    2,
    0x7f,
    0x80,
    0xff,
    0x7fff,
    0x8000,
    0xffff,
    0x7fff_ffff,
    0x8000_0000, // -0.0f32 / i32::MIN
    0xffff_ffff,
    0x7f80_0000, // +inf f32
    0xff80_0000, // -inf f32
    0x7fc0_0000, // quiet NaN f32
    0x7f80_0001, // signalling NaN f32
    0xffc0_1234, // negative NaN with payload f32
    0x0000_0001, // smallest subnormal
    0x3f80_0000, // 1.0f32
    0x7fff_ffff_ffff_ffff,
    0x8000_0000_0000_0000, // -0.0f64 / i64::MIN
    0xffff_ffff_ffff_ffff,
    0x7ff0_0000_0000_0000, // +inf f64
    0x7ff8_0000_0000_0000, // quiet NaN f64
    0x7ff0_0000_0000_0001, // signalling NaN f64
    0xfff8_0000_dead_beef, // negative NaN with payload f64
    0x3ff0_0000_0000_0000, // 1.0f64
    0x0102_0304_0506_0708, // byte-order witness
];

pub fn bits_strategy() -> impl Strategy<Value = u64> {
    prop_oneof![
        3 => (0..SPECIAL_BITS.len()).prop_map(|i| SPECIAL_BITS[i]),
        3 => any::<u64>(),
        1 => 0u64..300,
    ]
}

pub fn dim_strategy() -> impl Strategy<Value = usize> {
    prop_oneof![
        2 => Just(0usize),
        3 => Just(1usize),
        8 => 2usize..=4,
        2 => 5usize..=9,
        1 => Just(17usize),
    ]
}

pub fn shape_strategy(max_rank: usize) -> impl Strategy<Value = Vec<usize>> {
    proptest::collection::vec(dim_strategy(), 0..=max_rank).prop_map(|mut s| {
        // cap the element count by shrinking the largest dims
        while s.iter().filter(|d| **d > 0).product::<usize>() > MAX_ELEMS {
            let i = (0..s.len()).max_by_key(|&i| s[i]).unwrap();
            s[i] = (s[i] / 2).max(1);
        }
        s
    })
}

pub fn op_strategy() -> impl Strategy<Value = Op> {
    prop_oneof![
        3 => any::<[u8; 5]>().prop_map(Op::Permute),
        1 => Just(Op::Transpose),
        4 => (0u8..5, 0u8..4, 0u8..8, 1u8..4).prop_map(|(axis, start, len, step)| Op::Slice { axis, start, len, step }),
        2 => (0u8..5, 0u8..8).prop_map(|(axis, idx)| Op::Index { axis, idx }),
        2 => (proptest::collection::vec(1u8..=3, 0..=2), 1u8..=4).prop_map(|(lead, expand)| Op::Broadcast { lead, expand }),
    ]
}

pub fn tensor_case(max_ops: usize) -> impl Strategy<Value = TensorCase> {
    (
        dt_strategy(),
        shape_strategy(MAX_RANK),
        proptest::collection::vec(bits_strategy(), 1..=10),
        proptest::collection::vec(op_strategy(), 0..=max_ops),
    )
        .prop_map(|(dt, base_shape, vals, ops)| TensorCase { dt, base_shape, vals, ops })
}

/// Small contiguous tensors (for malformed-file seeds and archives).
pub fn small_tensor_case() -> impl Strategy<Value = TensorCase> {
    (
        dt_strategy(),
        proptest::collection::vec(prop_oneof![1 => Just(0usize), 2 => Just(1usize), 6 => 2usize..=3], 0..=3),
        proptest::collection::vec(bits_strategy(), 1..=4),
    )
        .prop_map(|(dt, base_shape, vals)| TensorCase { dt, base_shape, vals, ops: vec![] })
}
